"""C04 — column values equal what the OS and the file content say (static necessary conditions)."""
from hirq import *  # noqa: F401,F403
import oracles
import tables
from core import Abort

GFV = "searcher::Searcher::get_field_value"
CHECK_FILE = "searcher::Searcher::check_file"
CLEAR = "searcher::FileMetadataState::clear"
FMS = "searcher::FileMetadataState"
GET_MODE_UNIX = "mode::get_mode_unix"

PERM_PRED = {
    "mode::mode_user_read": lambda m: m & 0o400 != 0, "mode::mode_user_write": lambda m: m & 0o200 != 0,
    "mode::mode_user_exec": lambda m: m & 0o100 != 0,
    "mode::mode_user_all": lambda m: m & 0o700 == 0o700,
    "mode::mode_group_read": lambda m: m & 0o040 != 0, "mode::mode_group_write": lambda m: m & 0o020 != 0,
    "mode::mode_group_exec": lambda m: m & 0o010 != 0,
    "mode::mode_group_all": lambda m: m & 0o070 == 0o070,
    "mode::mode_other_read": lambda m: m & 0o004 != 0, "mode::mode_other_write": lambda m: m & 0o002 != 0,
    "mode::mode_other_exec": lambda m: m & 0o001 != 0,
    "mode::mode_other_all": lambda m: m & 0o007 == 0o007,
    "mode::mode_suid": lambda m: m & 0o4000 != 0, "mode::mode_sgid": lambda m: m & 0o2000 != 0,
    "mode::mode_sticky": lambda m: m & 0o1000 != 0,
}
TYPE_PRED = {
    "mode::mode_is_pipe": "fifo", "mode::mode_is_char_device": "chr", "mode::mode_is_block_device": "blk",
    "mode::mode_is_directory": "dir", "mode::mode_is_link": "lnk", "mode::mode_is_socket": "sock",
}


class ModeEval:
    """evaluates the pure u32 -> bool predicates of mode.rs (and the string builder get_mode_unix)"""

    def __init__(self, ctx):
        self.ctx = ctx
        self.consts = {k: v["int"] for k, v in ctx.prog.consts.items() if "int" in v}
        self.cache = {}

    def call(self, fn, mode):
        key = (fn, mode)
        if key in self.cache:
            return self.cache[key]
        f = self.ctx.prog.fns.get(fn)
        if f is None or "hir" not in f:
            raise NotComparison("unknown function %s" % fn)
        pname = f["params"][0]["name"]
        try:
            v = self.ev(self.ctx.prog.hir(fn), {pname: mode})
        except (NotComparison, KeyError) as e:
            # a predicate written with locals / a helper: read by the general finite interpreter
            import interp
            try:
                v = interp.Interp(prog=self.ctx.prog, max_steps=5000).run(self.ctx.prog.hir(fn), {f["params"][0]["id"]: mode})
            except interp.Undecided as e2:
                raise NotComparison("%s; interpreter: %s" % (e, e2))
            if not isinstance(v, bool):
                raise NotComparison("%s does not yield a boolean: %r" % (fn, v))
        self.cache[key] = v
        return v

    def ev(self, n, env):
        n = peel(n, methods=False)
        k = n["k"]
        if k == "Block":
            if n["stmts"]:
                raise NotComparison("statements in predicate")
            return self.ev(n["expr"], env)
        if k == "Lit":
            return n["v"]
        if k == "Path":
            if n.get("rk") == "Local":
                return env[n["name"]]
            if n["res"] in self.consts:
                return self.consts[n["res"]]
            raise NotComparison("path %s" % n["res"])
        if k == "Bin":
            op = n["op"]
            if op == "&&":
                return self.ev(n["l"], env) and self.ev(n["r"], env)
            if op == "||":
                return self.ev(n["l"], env) or self.ev(n["r"], env)
            a, b = self.ev(n["l"], env), self.ev(n["r"], env)
            return {"&": lambda: a & b, "|": lambda: a | b, "==": lambda: a == b, "!=": lambda: a != b,
                    ">": lambda: a > b, "<": lambda: a < b, ">>": lambda: a >> b, "<<": lambda: a << b,
                    "^": lambda: a ^ b, "-": lambda: a - b, "+": lambda: a + b}[op]()
        if k == "Un" and n["op"] == "!":
            return not self.ev(n["e"], env)
        if k == "Call" and n.get("callee") in self.ctx.prog.fns and len(n["args"]) == 1:
            return self.call(n["callee"], self.ev(n["args"][0], env))
        if k == "Cast":
            return self.ev(n["e"], env)
        raise NotComparison("cannot evaluate %s" % render(n)[:60])

    def mode_string(self, fn, mode):
        """the string built by get_mode_unix for one mode word: the function body is interpreted (rules/interp.py), calls to
        the mode predicates are answered by this evaluator (cached)"""
        import interp
        f = self.ctx.prog.fns[fn]
        pid = f["params"][0]["id"]

        def call(node, recv, args, it, env):
            callee = node.get("callee")
            if node["k"] == "Call" and callee in self.ctx.prog.fns and len(args) == 1 and isinstance(args[0], int):
                return (self.call(callee, args[0]),)
            return None
        try:
            v = interp.Interp(call=call, max_steps=5000).run(self.ctx.prog.hir(fn), {pid: mode})
        except interp.Undecided as e:
            raise NotComparison("cannot interpret %s: %s" % (short(fn, 1), e))
        if not isinstance(v, str):
            raise NotComparison("get_mode_unix does not yield a string: %r" % (v,))
        return v


def r1(ctx):
    me = ModeEval(ctx)
    n = 0
    for fn, spec in PERM_PRED.items():
        ctx.anchor_fn(fn)
        bad = []
        for m in range(0o10000):
            mode = 0o100000 | m
            got = me.call(fn, mode)
            n += 1
            if got != spec(mode):
                bad.append(m)
        ctx.obligation(not bad)
        if bad:
            ctx.violation("perm/%s" % short(fn, 1), ctx.where(fn),
                          "%s disagrees with its POSIX bit for %d of 4096 permission values, e.g. %s" %
                          (short(fn, 1), len(bad), oct(bad[0])))
    ctx.covered("permission predicates x all 4096 permission values", n, distinct_keys=list(PERM_PRED),
                sample={"S_IRUSR": me.consts.get("mode::S_IRUSR")}, exhaustive=True)
    n = 0
    for fn, ty in TYPE_PRED.items():
        ctx.anchor_fn(fn)
        wrong = []
        for t, code in oracles.FILE_TYPES.items():
            for perm in (0, 0o644, 0o7777):
                mode = code | perm
                got = me.call(fn, mode)
                n += 1
                if got != (t == ty):
                    wrong.append(t)
        ctx.obligation(not wrong)
        if wrong:
            ctx.violation("type/%s" % short(fn, 1), ctx.where(fn),
                          "%s is %s for file types %s (the S_IFMT field is a code, not a bit set): exactly one type "
                          "boolean must hold per entry" % (short(fn, 1), "wrong", sorted(set(wrong))))
    ctx.covered("file-type predicates x the 7 S_IFMT codes x 3 permission values", n, distinct_keys=list(TYPE_PRED),
                exhaustive=True)
    # the Metadata-taking wrappers delegate to their own mode_* predicate
    n = 0
    pairs = {"user_read": "mode_user_read", "user_write": "mode_user_write", "user_exec": "mode_user_exec",
             "group_read": "mode_group_read", "group_write": "mode_group_write", "group_exec": "mode_group_exec",
             "other_read": "mode_other_read", "other_write": "mode_other_write", "other_exec": "mode_other_exec",
             "suid_bit_set": "mode_suid", "sgid_bit_set": "mode_sgid", "is_pipe": "mode_is_pipe",
             "is_char_device": "mode_is_char_device", "is_block_device": "mode_is_block_device", "is_socket": "mode_is_socket"}
    for w, p in pairs.items():
        h = ctx.anchor_hir("mode::" + w)
        cs = {short(c["callee"], 1) for c in walk_exprs(h) if c["k"] == "Call" and str(c.get("callee", "")).startswith("mode::mode_")}
        # a predicate handed to a helper as a function value (`test_mode_of(meta, mode_suid)`) is a delegation as well
        cs |= {short(x["res"], 1) for x in walk_exprs(h) if x["k"] == "Path" and str(x.get("rk", "")) in ("Fn", "AssocFn") and str(x.get("res", "")).startswith("mode::mode_")}
        n += 1
        ok = cs == {p}
        ctx.obligation(ok)
        if not ok:
            ctx.violation("wrapper/%s" % w, ctx.where("mode::" + w), "mode::%s delegates to %s, expected %s" % (w, sorted(cs), p))
    for w, ps in {"user_all": {"user_read", "user_write", "user_exec"}, "group_all": {"group_read", "group_write", "group_exec"},
                  "other_all": {"other_read", "other_write", "other_exec"}}.items():
        h = ctx.anchor_hir("mode::" + w)
        cs = {short(c["callee"], 1) for c in walk_exprs(h) if c["k"] == "Call" and str(c.get("callee", "")).startswith("mode::")}
        n += 1
        ok = cs == ps and "||" not in render(h)
        ctx.obligation(ok)
        if not ok:
            ctx.violation("wrapper/%s" % w, ctx.where("mode::" + w), "mode::%s combines %s" % (w, sorted(cs)))
    ctx.covered("Metadata wrappers delegating to their mode_* predicate", n, distinct_keys=list(pairs))


def expected_mode_string(mode):
    t = [k for k, v in oracles.FILE_TYPES.items() if (mode & oracles.S_IFMT) == v]
    s = oracles.TYPE_CHAR[t[0]] if t else "-"
    for shift, special, lo, up in ((6, 0o4000, "s", "S"), (3, 0o2000, "s", "S"), (0, 0o1000, "t", "T")):
        bits = (mode >> shift) & 7
        s += "r" if bits & 4 else "-"
        s += "w" if bits & 2 else "-"
        if mode & special:
            s += lo if bits & 1 else up
        else:
            s += "x" if bits & 1 else "-"
    return s


def r2(ctx):
    ctx.anchor_fn(GET_MODE_UNIX)
    me = ModeEval(ctx)
    n = 0
    bad_type, bad_perm = [], []
    for t, code in oracles.FILE_TYPES.items():
        for perm in (0, 0o7777):
            got = me.mode_string(GET_MODE_UNIX, code | perm)
            n += 1
            if got[:1] != oracles.TYPE_CHAR[t]:
                bad_type.append((t, got[:1]))
    special = range(8)
    perms = range(0o1000) if ctx.tier == "thorough" else sorted({0, 0o777, 0o755, 0o644, 0o421, 0o124, 0o111, 0o222, 0o444, 0o100, 0o010, 0o001, 0o200, 0o020, 0o002,
                                                                   0o400, 0o040, 0o004, 0o700, 0o070, 0o007, 0o666, 0o333, 0o555, 0o123, 0o654, 0o765})
    for m in (sp << 9 | pm for sp in special for pm in perms):
        got = me.mode_string(GET_MODE_UNIX, 0o100000 | m)
        n += 1
        if got != expected_mode_string(0o100000 | m):
            bad_perm.append((oct(m), got, expected_mode_string(0o100000 | m)))
    ctx.obligation(not bad_type)
    ctx.obligation(not bad_perm)
    if bad_type:
        ctx.violation("mode-string/type-char", ctx.where(GET_MODE_UNIX),
                      "first character of the mode string is wrong for %s" % sorted(set(bad_type)))
    if bad_perm:
        ctx.violation("mode-string/permissions", ctx.where(GET_MODE_UNIX),
                      "mode string differs from ls -l notation for %d of the evaluated permission values, e.g. %s -> %s (expected %s)" %
                      ((len(bad_perm),) + bad_perm[0]))
    ctx.covered("mode strings: 7 types x 2 + 8 special-bit x rwx combinations (all 512 in the thorough tier), interpreted from get_mode_unix", n,
                distinct_keys=["type-char", "perm-chars"], sample={"0o4755": me.mode_string(GET_MODE_UNIX, 0o104755)},
                exhaustive=True)


# column -> names (methods / local callees / source paths) its arm must use; siblings must not be used
GROUPS = [
    {"Uid": ["get_uid"], "Gid": ["get_gid"]},
    {"Inode": ["ino"], "Hardlinks": ["nlink"], "Blocks": ["blocks"], "Device": ["dev"]},
    {"Modified": ["modified"], "Accessed": ["accessed"], "Created": ["created"]},
    {"Sha1": ["get_sha1_file_hash"], "Sha256": ["get_sha256_file_hash"], "Sha512": ["get_sha512_file_hash"],
     "Sha3": ["get_sha3_512_file_hash"]},
    {"IsArchive": ["is_archive"], "IsAudio": ["is_audio"], "IsBook": ["is_book"], "IsDoc": ["is_doc"],
     "IsFont": ["is_font"], "IsImage": ["is_image"], "IsSource": ["is_source"], "IsVideo": ["is_video"]},
    {"IsDir": ["is_dir"], "IsFile": ["is_file"], "IsSymlink": ["is_symlink"]},
    {"Width": ["width"], "Height": ["height"]},
    {"Size": ["len"], "LineCount": ["update_line_count"], "IsShebang": ["is_shebang"], "IsHidden": ["is_hidden"],
     "Mode": ["get_mode", "format_mode"], "FormattedSize": ["format_filesize", "len"],
     "Name": ["file_name"], "Path": ["path"], "Extension": ["get_extension"], "AbsPath": ["canonical_path"],
     "Directory": ["parent"], "AbsDir": ["parent", "canonical_path"], "IsEmpty": ["is_dir_empty", "len"],
     "HasXattrs": ["list_xattr"], "Capabilities": ["get_xattr", "parse_capabilities"], "Mime": ["from_filepath"]},
]
META_ACCESSORS = [("Inode", "ino"), ("Hardlinks", "nlink"), ("Blocks", "blocks"), ("Device", "dev"), ("Size", "len"),
                  ("FormattedSize", "len"), ("Modified", "modified"), ("Accessed", "accessed"), ("Created", "created"),
                  ("IsDir", "is_dir"), ("IsFile", "is_file")]
PERM_COLUMNS = {
    "UserRead": ("user_read", "mode_user_read"), "UserWrite": ("user_write", "mode_user_write"),
    "UserExec": ("user_exec", "mode_user_exec"), "UserAll": ("user_all", "mode_user_all"),
    "GroupRead": ("group_read", "mode_group_read"), "GroupWrite": ("group_write", "mode_group_write"),
    "GroupExec": ("group_exec", "mode_group_exec"), "GroupAll": ("group_all", "mode_group_all"),
    "OtherRead": ("other_read", "mode_other_read"), "OtherWrite": ("other_write", "mode_other_write"),
    "OtherExec": ("other_exec", "mode_other_exec"), "OtherAll": ("other_all", "mode_other_all"),
    "Suid": ("suid_bit_set", "mode_suid"), "Sgid": ("sgid_bit_set", "mode_sgid"),
    "IsPipe": ("is_pipe", "mode_is_pipe"), "IsCharacterDevice": ("is_char_device", "mode_is_char_device"),
    "IsBlockDevice": ("is_block_device", "mode_is_block_device"), "IsSocket": ("is_socket", "mode_is_socket"),
}


def arm_names(body):
    s = set()
    for x in walk(body):
        if x["k"] == "MCall":
            s.add(x["m"])
        elif x["k"] == "Call" and x.get("callee") and not x.get("ctor"):
            s.add(short(x["callee"], 1))
        elif x["k"] == "Path" and x.get("rk") in ("Fn", "AssocFn"):
            s.add(short(x["res"], 1))
        elif x["k"] == "Field":
            s.add(x["name"])
        elif x["k"] == "PStruct":
            for f in x["fields"]:
                s.add(f["name"])
    return s


def gfv_arms(ctx):
    hir = ctx.anchor_hir(GFV)
    ms = find_matches(hir, min_arms=20)
    if len(ms) != 1:
        ctx.violation("anchor/get_field_value-match", GFV, "per-column match of get_field_value not found")
        raise Abort()
    return {key_name(k).split("::")[-1]: a for a in match_arms(ms[0]) for k in a["keys"]}, ms[0], hir


def r3(ctx):
    arms, m, hir = gfv_arms(ctx)
    n = 0
    for grp in GROUPS:
        alln = {nm for v in grp.values() for nm in v}
        for col, need in grp.items():
            a = arms.get(col)
            if a is None:
                ctx.violation("accessor/%s/missing-arm" % col, ctx.where(GFV, m), "no arm for column %s" % col)
                continue
            names = arm_names(a["body"])
            n += 1
            missing = [x for x in need if x not in names]
            own = set(need)
            foreign = sorted((alln - own) & names) if len(grp) <= 8 else []
            ok = not missing and not foreign
            ctx.obligation(ok)
            if missing:
                ctx.violation("accessor/%s/missing" % col, ctx.where(GFV, a["body"]),
                              "column %s does not read its attribute through %s" % (col, missing))
            if foreign:
                ctx.violation("accessor/%s/sibling" % col, ctx.where(GFV, a["body"]),
                              "column %s reads a sibling column's attribute (%s)" % (col, foreign))
    # the stat-derived columns read the entry's own lstat record (std::fs::Metadata, C04-R5 decides that it is an lstat): the
    # same-named accessor of another type (DirEntryExt::ino is readdir's d_ino: the covered directory under a mount point)
    # is a different number
    for col, acc in META_ACCESSORS:
        a = arms.get(col)
        if a is None:
            continue
        for x in walk_exprs(a["body"]):
            if x["k"] == "MCall" and x["m"] == acc:
                n += 1
                rty = str(x["recv"].get("ty", ""))
                cal = str(x.get("callee", ""))
                ok = "std::fs::Metadata" in rty or "MetadataExt::" in cal or "fs::Metadata::" in cal
                ctx.obligation(ok)
                if not ok:
                    ctx.violation("accessor/%s/not-lstat" % col, ctx.where(GFV, x),
                                  "column %s reads `%s` through %s on a `%s`, not on the entry's lstat record (std::fs::Metadata): "
                                  "the directory entry's own number differs from lstat's for mount points" % (col, acc, cal or "?", rty))
    helpers = set()
    # (read off the source as written: a helper introduced later is inlined in the normalised tree)
    raw_gfv = ctx.prog.raw_hir(GFV)
    raw_takers = [str(c.get("callee")) for c in (walk_exprs(raw_gfv) if raw_gfv is not None else []) if c["k"] == "MCall" and str(c.get("callee", "")).startswith("searcher::Searcher::")
                  and sum(1 for y in walk_exprs(c) if y["k"] == "Path" and y.get("rk") == "Fn" and str(y.get("res", "")).startswith("mode::")) == 2]
    for col, (meta_fn, mode_fn) in PERM_COLUMNS.items():
        a = arms.get(col)
        if a is None:
            ctx.violation("accessor/%s/missing-arm" % col, ctx.where(GFV, m), "no arm for column %s" % col)
            continue
        fnrefs = [short(x["res"], 1) for x in walk_exprs(a["body"]) if x["k"] == "Path" and x.get("rk") == "Fn"
                  and x["res"].startswith("mode::")]
        n += 1
        # both predicates are handed to one method of the searcher (check_file_mode on the pinned tree; identified by what
        # the arms call, so that renaming it or reordering its parameters changes nothing)
        takers = [str(c.get("callee")) for c in walk_exprs(a["body"]) if c["k"] == "MCall" and str(c.get("callee", "")).startswith("searcher::Searcher::")
                  and sum(1 for y in walk_exprs(c) if y["k"] == "Path" and y.get("rk") == "Fn" and str(y.get("res", "")).startswith("mode::")) == 2]
        helpers.update(takers)
        ok = sorted(fnrefs) == sorted([meta_fn, mode_fn]) and (len(takers) == 1 or (not takers and len(set(raw_takers)) == 1))
        ctx.obligation(ok)
        if not ok:
            ctx.violation("accessor/%s/predicates" % col, ctx.where(GFV, a["body"]),
                          "column %s passes %s to the mode helper of the searcher, expected (mode::%s, mode::%s) handed to one method" % (col, fnrefs, meta_fn, mode_fn))
    # check_file_mode applies the u32 predicate to the archive mode and the Metadata predicate to the entry
    # check_file_mode evaluated (finite interpreter) on every state: the entry proper / an archive member with / without a
    # stored mode  x  lstat record available / not: the Metadata predicate is applied to the entry's own lstat record, the u32
    # predicate to the member's own stored mode, and a member without a stored mode answers false - never with the bits of
    # the archive file that contains it
    helpers.update(raw_takers)
    CFM = sorted(helpers)[0] if len(helpers) == 1 else "searcher::Searcher::check_file_mode"
    ch = ctx.anchor_hir(CFM)
    import norm
    import interp
    cfm = ctx.prog.fn(CFM)
    by_ty = list(zip(cfm["params"], norm.param_types(cfm.get("sig"))))
    isfn = lambda t_: "Fn(" in t_ or "fn(" in t_
    meta_p = [p_["id"] for p_, t_ in by_ty if isfn(t_) and "Metadata" in t_]
    bits_p = [p_["id"] for p_, t_ in by_ty if isfn(t_) and "Metadata" not in t_ and "u32" in t_]
    info_p = [p_["id"] for p_, t_ in by_ty if "FileInfo" in t_]
    self_p = [p_["id"] for p_, t_ in by_ty if "Searcher" in t_]
    problems = []
    nsc = 0
    if not (len(meta_p) == len(bits_p) == len(info_p) == len(self_p) == 1):
        problems.append("its parameters are no longer (searcher, entry, Metadata predicate, archive member, u32 predicate): %s" % [t_ for _, t_ in by_ty])
    else:
        for member in ("entry", "member-with-mode", "member-without-mode"):
            for lstat in (True, False):
                applied = []

                def call(node, recv, args, it, env, applied=applied):
                    callee = str(node.get("callee", ""))
                    if callee in ("META", "BITS"):
                        applied.append((callee, args[0] if args else None))
                        return (True,)
                    if node.get("m") == "update_file_metadata" or callee.endswith("::update_file_metadata"):
                        return ((),)
                    if callee.endswith("Variant::from_bool") and args and isinstance(args[0], bool):
                        return ({"__bool": args[0]},)
                    return None
                fms = interp.LazySelf({"file_metadata": interp.some("LSTAT") if lstat else interp.NONE, "file_metadata_set": True})
                env = {p_["id"]: interp.Opaque(p_.get("name") or "?") for p_, _ in by_ty}
                env[self_p[0]] = interp.LazySelf({"fms": fms, "current_follow_symlinks": False})
                env[meta_p[0]], env[bits_p[0]] = interp.Opaque("META"), interp.Opaque("BITS")
                env[info_p[0]] = interp.NONE if member == "entry" else interp.some(interp.LazySelf({"mode": interp.some(0o4755) if member == "member-with-mode" else interp.NONE, "name": "m", "size": 1}))
                try:
                    got = interp.Interp(call=call, prog=ctx.prog, max_steps=5000).run(ch, env)
                except interp.Undecided as e:
                    problems.append("cannot evaluate (%s, lstat %s): %s" % (member, "ok" if lstat else "fails", e))
                    break
                nsc += 1
                want_applied = [("META", "LSTAT")] if (member == "entry" and lstat) else ([("BITS", 0o4755)] if member == "member-with-mode" else [])
                want = {"__bool": bool(want_applied)}
                if applied != want_applied or got != want:
                    problems.append("for %s (lstat %s) it applies %s and answers %s, expected %s and %s" %
                                    (member.replace("-", " "), "available" if lstat else "failing", applied or "no predicate", got, want_applied or "no predicate", want))
    ctx.obligation(not problems)
    if problems:
        ctx.violation("accessor/check_file_mode", ctx.where(CFM),
                      "check_file_mode must apply the Metadata predicate to the entry's lstat record, the u32 predicate to an archive member's own mode, and answer "
                      "false where there is neither: %s" % "; ".join(problems[:3]))
    ctx.floor(nsc, 6, "states of check_file_mode evaluated", CFM)
    # user / group names
    if "User" in arms:
        for col, need in (("User", ["get_uid", "get_user_by_uid"]), ("Group", ["get_gid", "get_group_by_gid"])):
            names = arm_names(arms[col]["body"])
            n += 1
            ok = all(x in names for x in need)
            ctx.obligation(ok)
            if not ok:
                ctx.violation("accessor/%s/missing" % col, ctx.where(GFV, arms[col]["body"]), "column %s must use %s" % (col, need))
    ctx.covered("column arms of get_field_value checked against the column -> accessor table", n,
                distinct_keys=sorted(arms), sample={"Uid": sorted(arm_names(arms["Uid"]["body"]))[:8]})
    ctx.floor(n, 60, "column arms with an accessor row", GFV)
    # the digest functions use their own algorithm: the hasher is identified by its resolved *type* (the return type of the
    # constructor call; for a helper generic in the hasher, the type argument the digest function instantiates it with)
    want = {"util::get_sha1_file_hash": ("sha1::Sha1Core", "SHA-1"), "util::get_sha256_file_hash": ("sha2::OidSha256", "SHA-256"),
            "util::get_sha512_file_hash": ("sha2::OidSha512", "SHA-512"), "util::get_sha3_512_file_hash": ("sha3::Sha3_512Core", "SHA3-512")}
    import re as _re
    for fn, (marker, algo) in want.items():
        h = ctx.anchor_hir(fn)
        made = [str(c.get("ty", "")) for c in walk_exprs(h) if c["k"] in ("Call", "MCall") and not c.get("exp") and
                (str(c.get("callee", "")).endswith(("Digest::new", "Default::default", "::new")) and
                 ("CoreWrapper<" in str(c.get("ty", "")) or _re.fullmatch(r"[A-Z][A-Za-z0-9]*", str(c.get("ty", "")))))]
        tys = []
        for t_ in made:
            if "::" in t_:
                tys.append(t_)
                continue
            # a type parameter of an inlined generic helper: the arguments the digest function's own calls instantiate
            for c in walk_exprs(ctx.prog.raw_hir(fn)):
                ft = str((c.get("f") or {}).get("ty", "")) if c["k"] == "Call" else ""
                m_ = _re.search(r"\{[A-Za-z0-9_:]+::<(.*)>\}$", ft)
                if m_ and "CoreWrapper<" in m_.group(1):
                    tys.append(m_.group(1))
        copies = any(c["k"] == "Call" and "io::copy" in str(c.get("callee", "")) for c in walk_exprs(h))
        ok = len(tys) == 1 and marker in tys[0] and copies
        ctx.obligation(ok)
        if not ok:
            ctx.violation("digest/%s" % short(fn, 1), ctx.where(fn), "%s must hash the whole file (io::copy) with %s; its hasher type is %s%s" %
                          (short(fn, 1), algo, [t_[:90] for t_ in tys] or "not found", "" if copies else ", and the file is not copied into it"))
    ctx.covered("digest functions -> hasher type", 4, distinct_keys=list(want))
    # content columns read what the path leads to (open follows links, like sha1sum / wc / file): the open of a content
    # reader is not conditioned on the directory entry's own type (DirEntry::file_type and lstat do not follow links)
    n_open = 0
    readers = sorted(fn_ for fn_ in ctx.prog.fns if "{closure" not in fn_ and (fn_.startswith("util::") or fn_.startswith("<util::") or fn_ in ("function::get_value", GFV))
                     and not fn_.startswith("util::wbuf"))
    for fn in readers:
        h = ctx.prog.hir(fn)
        if h is None:
            continue
        for c in walk_exprs(h):
            if c["k"] == "Call" and str(c.get("callee", "")).endswith("File::open"):
                n_open += 1
                gs = [g for g in with_exits(guards_of(h, c) or []) if g[0] in ("if", "match")]
                txt = " ; ".join(guard_text(g) for g in gs)
                bad = [w for w in ("file_type", "symlink_metadata", "is_file()", "is_symlink()", "FileType") if w in txt]
                ctx.obligation(not bad)
                if bad:
                    ctx.violation("reader-open/%s" % short(fn, 1), ctx.where(fn, c),
                                  "%s opens the file only under `%s`: the entry's own type does not follow links, so a symbolic link to a regular file "
                                  "gets an empty value although its content is readable" % (short(fn, 1), txt[:160]))
    ctx.covered("File::open calls of the content readers not conditioned on the entry's own type", n_open, distinct_keys=["opens:%d" % n_open])
    ctx.floor(n_open, 15, "File::open calls in the content readers", "util")
    # extension classes read their own configuration list (user config, then default config)
    n = 0
    for cls in ("is_zip_archive", "is_archive", "is_audio", "is_book", "is_doc", "is_font", "is_image", "is_source", "is_video"):
        fn = "searcher::Searcher::" + cls
        h = ctx.anchor_hir(fn)
        fields = [x["name"] for x in walk_exprs(h) if x["k"] == "Field" and x["name"].startswith("is_")]
        roots = [render(x["e"]) for x in walk_exprs(h) if x["k"] == "Field" and x["name"].startswith("is_")]
        n += 1
        ok = fields == [cls, cls] and sorted(roots) == ["self.config", "self.default_config"] and \
            any(is_call_to(c, "util::has_extension") for c in walk_exprs(h))
        ctx.obligation(ok)
        if not ok:
            ctx.violation("extension-class/%s" % cls, ctx.where(fn),
                          "%s must test has_extension with config.%s falling back to default_config.%s; it reads %s of %s" %
                          (cls, cls, cls, fields, roots))
    ctx.covered("extension-class helpers reading their own configuration list", n, distinct_keys=["is_*:%d" % n])


def r4(ctx):
    body = ctx.anchor_body(CHECK_FILE)
    clears = body.calls_to(CLEAR)
    users = body.calls_to("searcher::Searcher::conforms", GFV, "searcher::Searcher::get_column_expr_value")
    ok = len(clears) >= 1 and all(any(body.dominates(c[0], u[0]) and c[0] != u[0] for c in clears) for u in users)
    ctx.obligation(ok)
    ctx.covered("attribute reads of check_file dominated by fms.clear()", len(users), distinct_keys=["uses:%d" % len(users)])
    ctx.floor(len(users), 4, "attribute-reading calls in check_file", CHECK_FILE)
    if not ok:
        ctx.violation("memo/clear-first", ctx.where(CHECK_FILE),
                      "check_file does not reset the per-entry metadata memo before every attribute read: values of "
                      "the previous entry can leak into this row")
    fields = ctx.prog.struct_fields(FMS) or []
    cb = ctx.anchor_body(CLEAR)
    written = {f[-1][1:] for f in cb.field_writes()}
    missing = [f for f in fields if f not in written]
    ctx.obligation(not missing)
    ctx.covered("fields of FileMetadataState reset by clear()", len(fields), distinct_keys=fields, exhaustive=True)
    ctx.floor(len(fields), 12, "fields of FileMetadataState", FMS)
    for f in missing:
        ctx.violation("memo/clear/%s" % f, ctx.where(CLEAR), "FileMetadataState::clear does not reset `%s`" % f)
    # reset values: flags false, values None
    ch = ctx.anchor_hir(CLEAR)
    for x in walk_exprs(ch):
        if x["k"] == "Assign":
            nm = x["l"].get("name") if x["l"]["k"] == "Field" else None
            val = render(peel_result(x["r"]))
            if nm and ((nm.endswith("_set") and val != "false") or (not nm.endswith("_set") and not val.endswith("None"))):
                ctx.violation("memo/clear-value/%s" % nm, ctx.where(CLEAR, x), "clear() sets %s to %s" % (nm, val))
    # update_X memoises X: evaluated (finite interpreter; the reader it calls is a stand-in) on three states of the memo:
    # not yet filled and the reader succeeds / fails -> the flag is raised and the value stored is this entry's (never what
    # was there before); already filled -> nothing is read again and the value stays
    import interp
    n = 0
    for name in sorted(ctx.prog.fns):
        if name.startswith(FMS + "::update_") and "::{" not in name:
            what = name.rsplit("update_", 1)[1]
            h = ctx.prog.hir(name)
            ps = ctx.prog.fns[name]["params"]
            n += 1
            problems = []
            # ("empty/others-known": the other memos already hold this entry's lstat record - an empty regular file by it -:
            # a content column is read from the content, never inferred from the stat record; /proc files have length 0)
            for state in ("empty/reader-ok", "empty/reader-fails", "filled", "empty/others-known"):
                reads = []

                def call(node, recv, args, it, env, state=state, reads=reads):
                    callee = str(node.get("callee", ""))
                    if callee in ctx.prog.fns and not callee.startswith(FMS):
                        reads.append(callee)
                        rty = str(node.get("ty", ""))
                        if state == "empty/reader-fails":
                            if rty.startswith("core::option::Option<"):
                                return (interp.NONE,)
                            if rty.startswith("core::result::Result<"):
                                return (interp.V("Result::Err", [interp.Opaque("error")]),)
                        if rty.startswith("core::option::Option<"):
                            return (interp.some("FRESH"),)
                        if rty.startswith("core::result::Result<"):
                            return (interp.V("Result::Ok", ["FRESH"]),)
                        return ("FRESH",)
                    if isinstance(recv, interp.Opaque) and recv.what == "LSTAT" and node.get("k") == "MCall":
                        m_ = node.get("m")
                        if m_ in ("is_file",):
                            return (True,)
                        if m_ in ("is_dir", "is_symlink"):
                            return (False,)
                        if m_ in ("len", "size", "blocks"):
                            return (0,)
                    if isinstance(recv, interp.Opaque) and node.get("k") == "MCall":
                        return (interp.Opaque("%s.%s()" % (recv.what, node.get("m"))),)      # entry.path() and the like
                    return None
                selfv = interp.LazySelf({what + "_set": state == "filled", what: "KEPT" if state == "filled" else "STALE"})
                if state == "empty/others-known" and what != "file_metadata":
                    selfv["file_metadata_set"], selfv["file_metadata"] = True, interp.some(interp.Opaque("LSTAT"))
                env = {p_["id"]: interp.Opaque(p_.get("name") or "?") for p_ in ps}
                env[ps[0]["id"]] = selfv
                try:
                    interp.Interp(call=call, prog=ctx.prog, max_steps=5000).run(h, env)
                except interp.Undecided as e:
                    problems.append("cannot evaluate (%s): %s" % (state, e))
                    break
                if state == "filled":
                    if selfv[what] != "KEPT" or reads or selfv[what + "_set"] is not True:
                        problems.append("with the memo already filled it %s" % ("reads again (%s)" % reads if reads else "changes the stored value to %r" % (selfv[what],)))
                else:
                    if selfv[what + "_set"] is not True:
                        problems.append("(%s) the flag %s_set is not raised" % (state, what))
                    if "STALE" in repr(selfv[what]):
                        problems.append("(%s) the flag is raised but `%s` keeps what was stored before (%r): an entry that cannot be read shows the previous entry's value" % (state, what, selfv[what]))
                    if not reads:
                        problems.append("(%s) nothing is read" % state)
                    if state in ("empty/reader-ok", "empty/others-known") and "FRESH" not in repr(selfv[what]):
                        problems.append("(%s) the value read is not stored: `%s` = %r" % (state, what, selfv[what]))
            ctx.obligation(not problems)
            if problems:
                ctx.violation("memo/update/%s" % what, ctx.where(name),
                              "update_%s must fill `%s` once per entry with what its reader returns for this entry: %s" % (what, what, "; ".join(problems)))
    ctx.covered("update_* memo helpers", n, distinct_keys=["update:%d" % n])


def r5(ctx):
    fn = "util::get_metadata"
    body = ctx.anchor_body(fn)
    callees = sorted({body.callee(t) for _, t in body.calls()})
    stat = [c for c in callees if "metadata" in c]
    bad = [c for c in stat if c not in ("std::fs::DirEntry::metadata", "std::fs::symlink_metadata")]
    ctx.obligation(not bad and bool(stat))
    ctx.covered("stat calls reachable in get_metadata", len(stat), distinct_keys=stat, sample=stat)
    if bad or not stat:
        ctx.violation("lstat/get_metadata", ctx.where(fn),
                      "get_metadata must report the entry's own attributes (DirEntry::metadata / symlink_metadata, both "
                      "lstat); it calls %s" % (bad or "no stat function"))


def r6(ctx):
    # line_count counts newline bytes
    h = ctx.anchor_hir("util::get_line_count")
    cs = calls_to(h, "bytecount::count")
    ok = len(cs) == 1 and peel(cs[0]["args"][1])["k"] == "Lit" and peel(cs[0]["args"][1])["v"] == 10
    ctx.obligation(ok)
    if not ok:
        ctx.violation("content/line_count", ctx.where("util::get_line_count"), "line_count must count b'\\n' bytes of the whole file")
    # shebang: bytes 0x23 0x21 at offsets 0 and 1
    h = ctx.anchor_hir("util::is_shebang")
    cmps = []
    for x in walk_exprs(h):
        if x["k"] == "Bin" and x["op"] == "==" and x["l"]["k"] == "Index":
            cmps.append((peel(x["l"]["i"])["v"], peel(x["r"])["v"]))
    ok = sorted(cmps) == [(0, 0x23), (1, 0x21)] and "&&" in render(h)
    ctx.obligation(ok)
    if not ok:
        ctx.violation("content/is_shebang", ctx.where("util::is_shebang"), "is_shebang must test bytes 0,1 == '#','!'; it tests %s" % cmps)
    # has_extension: lower-cased name, ends_with
    h = ctx.anchor_hir("util::has_extension")
    locs = Locals(h)
    ew = [c for c in walk_exprs(h) if c["k"] == "MCall" and c["m"] == "ends_with"]
    ok = len(ew) == 1 and tables.is_lowercased(ew[0]["recv"], locs)
    ctx.obligation(ok)
    if not ok:
        ctx.violation("content/has_extension", ctx.where("util::has_extension"), "has_extension must test the lower-cased name with ends_with")
    # is_hidden (unix): leading dot
    h = ctx.anchor_hir("util::is_hidden")
    sw = [peel(c["args"][0]).get("v") for c in walk_exprs(h) if c["k"] == "MCall" and c["m"] == "starts_with"]
    ok = sw and all(v == "." for v in sw)
    ctx.obligation(bool(ok))
    if not ok:
        ctx.violation("content/is_hidden", ctx.where("util::is_hidden"), "is_hidden must test for a leading dot")
    # CONTAINS searches the file's text for the argument
    gv = ctx.anchor_hir("function::get_value")
    arms = {}
    for m in find_matches(gv, min_arms=20):
        for a in match_arms(m):
            for k in a["keys"]:
                arms[key_name(k).split("::")[-1]] = a
    a = arms.get("Contains")
    ok = False
    if a:
        cs = [c for c in walk_exprs(a["body"]) if c["k"] == "MCall" and c["m"] == "contains"]
        ok = len(cs) == 1 and "function_arg" in render(cs[0]["args"][0]) and "contents" in render(cs[0]["recv"]) and \
            any(c["k"] == "MCall" and c["m"] == "read_to_string" for c in walk_exprs(a["body"]))
    ctx.obligation(ok)
    if not ok:
        ctx.violation("content/contains", ctx.where("function::get_value"), "CONTAINS must read the file as text and search it for its argument")
    ctx.covered("content-reader constants (newline byte, shebang bytes, extension test, hidden test, CONTAINS)", 5,
                distinct_keys=["line_count", "is_shebang", "has_extension", "is_hidden", "contains"])
    # default extension lists: the documented zip extensions
    dh = ctx.anchor_hir("config::Config::default")
    lists = {}
    for x in walk_exprs(dh):
        if x["k"] == "Struct":
            for f in x["fields"]:
                lits = [y["v"] for y in walk_exprs(f["e"]) if y["k"] == "Lit" and y["lk"] == "str"]
                if f["name"].startswith("is_"):
                    lists[f["name"]] = lits
    ok = lists.get("is_zip_archive") == oracles.ZIP_EXTENSIONS
    ctx.obligation(ok)
    if not ok:
        ctx.violation("config/is_zip_archive", ctx.where("config::Config::default"), "default zip extensions are %s, documented %s" % (lists.get("is_zip_archive"), oracles.ZIP_EXTENSIONS))
    bad = [(k, e) for k, v in lists.items() for e in v if not e.startswith(".") or e != e.lower()]
    ctx.obligation(not bad)
    if bad:
        ctx.violation("config/extension-shape", ctx.where("config::Config::default"), "default extensions must be lower-case and start with a dot: %s" % bad[:3])
    ctx.covered("default extension lists", len(lists), distinct_keys=sorted(lists))
    ctx.floor(len(lists), 9, "extension lists in Config::default", "config::Config::default")


def r7(ctx):
    fn = "util::capabilities::parse_capabilities"
    hir = ctx.anchor_hir(fn)
    # the same table by evaluation of the whole function on crafted `security.capability` values (struct vfs_cap_data:
    # magic_etc with the revision in its top byte and the effective flag in its lowest bit, then (permitted, inheritable) pairs
    # of little-endian words, revision 3 followed by a root id): each capability set alone in the permitted word of revision
    # 2 and of revision 3 (written for files capped inside a user namespace), the low 32 also in revision 1
    import interp
    ps7 = ctx.prog.fns[fn]["params"]

    def attr(rev, bit, inheritable=False, both=False, effective=True):
        lo = hi = 0
        if bit < 32:
            lo = 1 << bit
        else:
            hi = 1 << (bit - 32)
        pl, il, ph, ih = (lo, lo, hi, hi) if both else ((0, lo, 0, hi) if inheritable else (lo, 0, hi, 0))
        words = [(rev << 24) | (1 if effective else 0), pl, il] + ([ph, ih] if rev >= 2 else []) + ([1000] if rev == 3 else [])
        out = []
        for w in words:
            out += list(w.to_bytes(4, "little"))
        return out
    nev = 0
    bad7 = []
    for bit, name in enumerate(oracles.CAPABILITIES):
        for rev in (1, 2, 3):
            if rev == 1 and bit >= 32:
                continue
            for inh in (False, True):
                try:
                    got = interp.Interp(prog=ctx.prog, max_steps=300000).run(hir, {ps7[0]["id"]: attr(rev, bit, inh)})
                except interp.Undecided as e:
                    bad7.append("cannot evaluate parse_capabilities: %s" % e)
                    break
                nev += 1
                names = [w.split("=")[0] for w in str(got).replace(",", " ").split()]
                if names != [name]:
                    bad7.append("an attribute of revision %d with only %s (number %d) %s yields `%s`" % (rev, name, bit, "inheritable" if inh else "permitted", got))
            if bad7 and bad7[-1].startswith("cannot"):
                break
        if bad7 and bad7[-1].startswith("cannot"):
            break
    ctx.obligation(not bad7)
    if bad7:
        ctx.violation("capability/by-evaluation", ctx.where(fn), "every capability set in a security.capability value of revision 1, 2 or 3 must be named, and no other: %s" % "; ".join(bad7[:3]))
    # the flag letters: e(ffective) from the flag bit of the header, p(ermitted) / i(nheritable) from the word the bit is set in
    if not bad7:
        for bit in (0, 33):
            for both, inh, eff, want in ((False, False, True, "ep"), (False, True, True, "ei"), (True, False, True, "eip"), (False, False, False, "p"), (True, False, False, "ip")):
                try:
                    got = interp.Interp(prog=ctx.prog, max_steps=300000).run(hir, {ps7[0]["id"]: attr(2, bit, inh, both, eff)})
                except interp.Undecided as e:
                    bad7.append("cannot evaluate parse_capabilities: %s" % e)
                    break
                nev += 1
                fl = str(got).split("=")[-1] if "=" in str(got) else None
                if fl is None or sorted(fl) != sorted(want):
                    bad7.append("capability %d %s%s%s is shown as `%s`, expected the flags `%s`" % (bit, "permitted" if not inh else "inheritable", " and inheritable" if both else "", ", effective" if eff else "", got, want))
        if bad7:
            ctx.obligation(False)
            ctx.violation("capability/flags", ctx.where(fn), "; ".join(bad7[:3]))
    ctx.covered("parse_capabilities evaluated on one-capability attributes (41 capabilities x revisions 1-3 x permitted / inheritable; flag letters)", nev, distinct_keys=["rev1", "rev2", "rev3", "flags"], exhaustive=True)
    if not any(b_.startswith("cannot") for b_ in bad7):
        return          # decided by evaluation; the table below is read only where the function cannot be evaluated
    locs = Locals(hir)
    # word of each `permitted` / `inherited` local: the byte range it is read from
    ranges = {}
    for x in walk(hir):
        if x["k"] == "Let" and x["pat"]["k"] == "Bind" and "init" in x:
            idx = [y for y in walk_exprs(x["init"]) if y["k"] == "Index" and y["i"]["k"] == "Struct"]
            if idx:
                fs = {f["name"]: peel(f["e"]).get("v") for f in idx[0]["i"]["fields"]}
                ranges[x["pat"]["id"]] = (fs.get("start"), fs.get("end"))
    rows = []
    me = ModeEval(ctx)
    for x in walk_exprs(hir):
        if x["k"] == "If":
            c = peel(x["c"], methods=False)
            if c["k"] == "LetE" and is_call_to(peel(c["init"]), "check_capability"):
                call = peel(c["init"])
                bit = peel(call["args"][2], methods=False)
                code = None
                if bit["k"] == "Bin" and bit["op"] == "<<" and peel(bit["l"]).get("v") == 1:
                    try:
                        code = me.ev(bit["r"], {})
                    except NotComparison:
                        code = None
                name = [y["v"] for y in walk_exprs(x["t"]) if y["k"] == "Lit" and y["lk"] == "str" and str(y["v"]).startswith("cap_")]
                perm = peel(call["args"][0]).get("res")
                inh = peel(call["args"][1]).get("res")
                rows.append((name[0] if name else None, code, ranges.get(perm), ranges.get(inh), x))
    ctx.floor(len(rows), 41, "capability rows in parse_capabilities", fn)
    n = 0
    seen = set()
    for name, code, pr, ir, node in rows:
        if name not in oracles.CAPABILITIES:
            ctx.violation("capability/unknown/%s" % name, ctx.where(fn, node), "unknown capability name %s" % name)
            continue
        i = oracles.CAPABILITIES.index(name)
        seen.add(name)
        word = i // 32
        want_pr = (4, 8) if word == 0 else (12, 16)
        want_ir = (8, 12) if word == 0 else (16, 20)
        n += 1
        ok = code == i % 32 and pr == want_pr and ir == want_ir
        ctx.obligation(ok)
        if not ok:
            ctx.violation("capability/%s" % name, ctx.where(fn, node),
                          "%s is decoded from bit %s of permitted bytes %s / inheritable bytes %s; linux/capability.h says "
                          "capability %d = bit %d of word %d (bytes %s / %s)" % (name, code, pr, ir, i, i % 32, word, want_pr, want_ir))
    for c in oracles.CAPABILITIES:
        if c not in seen:
            ctx.violation("capability/missing/%s" % c, ctx.where(fn), "capability %s is never reported" % c)
    ctx.covered("capability rows (name, bit, word) against linux/capability.h", n, distinct_keys=sorted(seen),
                sample={"cap_bpf": [r[1:4] for r in rows if r[0] == "cap_bpf"]}, exhaustive=True)
    # flag letters
    ch = ctx.anchor_hir("util::capabilities::check_capability")
    lits = [y["v"] for y in walk_exprs(ch) if y["k"] == "Lit" and y["lk"] == "str"]
    ok = lits == ["ip", "p", "i"]
    ctx.obligation(ok)
    if not ok:
        ctx.violation("capability/flags", ctx.where("util::capabilities::check_capability"), "flag strings are %s, expected ip / p / i" % lits)


RULES = [
    ("C04-R1", "permission and file-type predicates of mode.rs on all 4096 permission values / 7 type codes", r1),
    ("C04-R2", "mode string layout (ls -l) for all permission values and type codes", r2),
    ("C04-R3", "column -> accessor table of get_field_value; digests; extension classes", r3),
    ("C04-R4", "per-entry memo: cleared before every read, clear() resets every field", r4),
    ("C04-R5", "metadata is read without following links", r5),
    ("C04-R6", "content-reader constants and default extension lists", r6),
    ("C04-R7", "capability table against linux/capability.h", r7),
    ("C04-R8", "the byte count of Read::read bounds the data examined", lambda ctx: __import__("extra2").read_amount_used(ctx)),
    ("X-CONFIG", "a setting read from both configurations is the user's value when present, the built-in default otherwise [shared]", lambda ctx: __import__("extra2").user_config_wins(ctx)),
    ("C13-R3", "time columns: accessor, conversion to local time, output format [shared with C13]", lambda ctx: __import__("c13").r3(ctx)),
    ("X-MEMOKEY", "a memo kept in self is keyed by every parameter its stored value is computed from [shared]", lambda ctx: __import__("extra2").memo_key_complete(ctx)),
]

EXPLANATION = (
    "Static structural necessary conditions of C04: the pure predicates of mode.rs are extracted from the HIR and "
    "evaluated (as formulas over the mode word, constants taken from const-eval) on all 4096 permission values and "
    "the 7 S_IFMT codes against POSIX; get_mode_unix is interpreted on the same grid against ls -l notation; every "
    "column arm of get_field_value must read its attribute through its own accessor and none of a sibling's; the "
    "per-entry memo is cleared before every read and clear() resets every field (MIR field writes); metadata is "
    "lstat; newline/shebang/extension/hidden/CONTAINS constants; the 41 capability rows (name, bit, word) equal "
    "linux/capability.h. Digest values, owner names, xattr contents, sizes and times are produced by the OS and "
    "third-party crates and are not decided.")
ASSUMPTIONS = ["rustc's HIR/MIR and const-eval faithfully represent the source; exporter and rule scripts are correct",
               "POSIX mode constants and linux/capability.h as frozen in rules/oracles.py",
               "std / sha1 / sha2 / sha3 / bytecount compute what their documentation says"]
NOT_DECIDED = ["digest values, owner names, xattr contents, actual sizes and times",
               "name/ext/dir/path decompositions on arbitrary names (std::path semantics)",
               "blocking reads of FIFOs by content columns (no regular-file guard exists at any open site; see DESIGN.md D34)"]
