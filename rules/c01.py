"""C01 — traversal is exact: every entry in the depth window, once, nothing else (static necessary conditions)."""
import re
from hirq import *  # noqa: F401,F403
from core import Abort

VISIT_DIR = "searcher::Searcher::visit_dir"
LSR = "searcher::Searcher::list_search_results"
OK_TO_VISIT = "searcher::Searcher::ok_to_visit_dir"
CHECK_FILE = "searcher::Searcher::check_file"


def params(ctx, fn):
    return [p.get("name") for p in ctx.prog.fn(fn)["params"]]


def g_str(t):
    if t[0] == "if":
        return ("if" if t[2] else "ifnot", render(t[1]))
    if t[0] == "match":
        return ("match", render(t[1]), render_pat(t[2]))
    return (t[0],)


def entry_check_site(hir):
    """the check_file(&entry, &None) call of the directory loop (not the archive member one)"""
    out = []
    for c in walk_exprs(hir):
        if c["k"] == "MCall" and c["m"] == "check_file" and render(c["args"][1]).endswith("None"):
            out.append(c)
    return out


def r1(ctx):
    hir = ctx.anchor_hir(VISIT_DIR)
    ps = params(ctx, VISIT_DIR)
    # positions: self, dir, min_depth, max_depth, root_depth
    if len(ps) < 5:
        ctx.violation("anchor/visit_dir-params", VISIT_DIR, "visit_dir signature changed; failing closed")
        raise Abort()
    p_min, p_max, p_root = ps[2], ps[3], ps[4]
    locs = Locals(hir)
    canon = None
    for x in walk(hir):
        if x["k"] == "Let" and x["pat"]["k"] == "Bind" and "init" in x and is_call_to(peel(x["init"]), "util::calc_depth"):
            canon = x["pat"]["id"]
    if canon is None:
        ctx.violation("anchor/canonical-depth", VISIT_DIR, "depth of the canonical path (calc_depth) not found")
        raise Abort()

    def leaf(n):
        n = peel(n, methods=False)
        if n["k"] == "Path" and n.get("rk") == "Local":
            if n["res"] == canon:
                return "c"
            if n["name"] in (p_min, p_max, p_root) and n["res"] not in locs.defs:
                return {p_min: "min", p_max: "max", p_root: "r"}[n["name"]]
        return None

    ev = Evaluator(leaf, locs)
    sites = entry_check_site(hir)
    if len(sites) != 1:
        ctx.violation("anchor/check_file-site", VISIT_DIR, "expected one check_file(entry, None) site, found %d" % len(sites))
        raise Abort()
    rep_guards = [t for t in guards_of(hir, sites[0]) if t[0] == "if" and ("depth" in render(t[1]))]
    desc_sites = [c for c in walk_exprs(hir) if c["k"] == "MCall" and (c["m"] == "push_back" or (c["m"] == "visit_dir"))]
    in_loop_desc = [c for c in desc_sites if any(t[0] == "match" and "read_dir" in render(t[1]) for t in guards_of(hir, c))]
    n = 0
    bad_rep, bad_desc = [], []
    for c in (3, 4, 5, 6):
        for r in (0, 3, 4, 5, 8):
            # r > c: a directory shallower than the root, reachable only through a followed link; it counts as level 1
            # (a level below 1 would be excluded by `mindepth 1`, which must exclude nothing)
            d = max(c - (c if r == 0 else r), 0) + 1
            for mn in range(0, 6):
                for mx in range(0, 6):
                    env = {"c": c, "r": r, "min": mn, "max": mx}
                    got = all(ev.boolean(t[1], env) == t[2] for t in rep_guards)
                    want = (mn == 0 or d >= mn)
                    n += 1
                    if got != want:
                        bad_rep.append((d, mn))
                    for s in in_loop_desc:
                        gs = [t for t in guards_of(hir, s) if t[0] == "if" and "depth" in render(t[1])]
                        gotd = all(ev.boolean(t[1], env) == t[2] for t in gs)
                        wantd = (mx == 0 or d < mx)
                        n += 1
                        if gotd != wantd:
                            bad_desc.append((d, mx, s["m"]))
    ctx.obligation(not bad_rep)
    ctx.obligation(not bad_desc)
    ctx.covered("depth-window gates evaluated on the grid canonical depth x root depth x mindepth x maxdepth", n,
                distinct_keys=["report", "descend-dfs", "descend-bfs"],
                sample={"report": [render(t[1]) for t in rep_guards], "depth": render(locs.defs.get([k for k in locs.defs if k.startswith("local:depth:")][0])) if any(k.startswith("local:depth:") for k in locs.defs) else None},
                exhaustive=True)
    if not rep_guards:
        ctx.violation("depth/report-gate-missing", ctx.where(VISIT_DIR, sites[0]), "reporting an entry is not gated by the depth window")
    if bad_rep:
        d, mn = bad_rep[0]
        ctx.violation("depth/report-gate", ctx.where(VISIT_DIR, sites[0]),
                      "entries at level %d with mindepth %d are %s: the reporting gate differs from `mindepth = 0 or level >= mindepth` "
                      "(level = canonical depth - base depth + 1)" % (d, mn, "reported" if not (mn == 0 or d >= mn) else "skipped"))
    if len(in_loop_desc) < 2:
        ctx.violation("depth/descent-sites", ctx.where(VISIT_DIR), "expected a DFS recursion and a BFS queue push inside the directory loop")
    if bad_desc:
        d, mx, m = bad_desc[0]
        ctx.violation("depth/descend-gate", ctx.where(VISIT_DIR),
                      "directories at level %d with maxdepth %d are %s (%s): the descent gate differs from `maxdepth = 0 or level < maxdepth`" %
                      (d, mx, "entered" if not (mx == 0 or d < mx) else "not entered", m))
    # calc_depth counts path separators
    # calc_depth counts the `/` separators and nothing else: evaluated on nine paths (a backslash, a dot, a blank are not separators)
    import interp
    ch = ctx.anchor_hir("util::calc_depth")
    cps = ctx.prog.fns["util::calc_depth"]["params"]
    ok, why = True, ""
    for path in ("/", "/a", "/a/b", "/a/b/c", "a", "", "/a\\b/c", "/a.b/c d", "//a"):
        try:
            got = interp.Interp(prog=ctx.prog).run(ch, {cps[0]["id"]: path})
        except interp.Undecided as e:
            ok, why = False, "cannot evaluate calc_depth(%r): %s" % (path, e)
            break
        if got != path.count("/"):
            ok, why = False, "calc_depth(%r) = %s, the path has %d separators" % (path, got, path.count("/"))
            break
    ctx.obligation(ok)
    if not ok:
        ctx.violation("depth/calc_depth", ctx.where("util::calc_depth"), "calc_depth must count the `/` separators of the canonical path: %s" % why)
    # the canonical depth is the depth of the directory being listed
    cp = [x for x in walk(hir) if x["k"] == "Let" and x["pat"].get("id") == canon]
    src = render(locs.chase(cp[0]["init"]["args"][0])) if cp else ""
    ok = "canonical_path" in src
    ctx.obligation(ok)
    if not ok:
        ctx.violation("depth/canonical", ctx.where(VISIT_DIR), "the level must be computed from the canonical path of the listed directory")


_DESCENT_FLAGS = set()


def _note_descent_flag(hir):
    """the boolean local that stands next to ok_to_visit_dir in the descent condition ("this entry is, or leads to, a directory"),
    whatever it is called: where it becomes true is C18-R1's business (the enabling sites of the flag)"""
    for x in walk_exprs(hir):
        if x["k"] == "If" and x["c"]["k"] != "LetE":
            cs = conjuncts(x["c"])
            if any(c["k"] == "MCall" and c["m"] == "ok_to_visit_dir" for c in cs):
                for c in cs:
                    c = peel(c, methods=False)
                    if c["k"] == "Path" and c.get("rk") == "Local":
                        _DESCENT_FLAGS.add(render(c))


def _descent_cond_ok(rc):
    """reviewed conditions under which a directory entry is entered (rendered atom)"""
    flat = rc.replace("(", "").replace(")", "")
    return rc in _DESCENT_FLAGS or rc == "pass_ignores" or ("depth" in rc and "max" in rc) or ("depth" in rc and "min" in rc) or rc.startswith("let Result::Ok(file_type)") or \
        rc.startswith("let Result::Ok(entry)") or rc == "ok" or rc.startswith("self.ok_to_visit_dir(") or flat.startswith("traversal_mode ==") or \
        flat.startswith("traversal_mode !=") or flat.startswith("!traversal_mode") or "is_dir_like" == rc


def r2(ctx):
    """no unlisted skip: inside the directory loop every entry reaches check_file unless a listed condition holds"""
    hir = ctx.anchor_hir(VISIT_DIR)
    _note_descent_flag(hir)
    sites = entry_check_site(hir)
    if len(sites) != 1:
        ctx.violation("anchor/check_file-site", VISIT_DIR, "expected one check_file(entry, None) site")
        raise Abort()
    gs = [g_str(t) for t in with_exits(guards_of(hir, sites[0]), after_loop=True)]
    allowed = 0
    for g in gs:
        ok = False
        if g[0] == "match" and ("read_dir" in g[1] or "into_iter" in g[1] or "Iterator::next" in g[1]):
            ok = True
        elif g[0] == "match" and g[2].startswith("Result::Ok"):
            ok = True
        elif g[0] == "loop":
            ok = True
        elif g[0] == "if" and g[1] == "pass_ignores":
            ok = True
        elif g[0] == "ifnot" and g[1] == "!pass_ignores":
            ok = True        # `if !pass_ignores { continue }`
        elif g[0] in ("if", "ifnot") and "depth" in g[1] and "min" in g[1]:
            ok = True        # the depth gate (its value is decided by R1)
        elif g[0] == "ifnot" and "limit" in g[1] and "found" in g[1]:
            ok = True        # the LIMIT stop written as a guard clause (exactness: C06-R2)
        ctx.obligation(ok)
        if ok:
            allowed += 1
        else:
            ctx.violation("skip/guard/%s" % g[1][:60], ctx.where(VISIT_DIR, sites[0]),
                          "reporting an entry is additionally conditioned on `%s %s`: entries failing it are silently "
                          "skipped although they are inside the depth window" % (g[0], g[1]))
    # early exits of the loop body that precede the report
    loop = [t[1] for t in guards_of(hir, sites[0]) if t[0] == "loop"]
    body = loop[0]
    order = list(walk_exprs(body))
    pos = order.index(sites[0]) if sites[0] in order else len(order)
    exits = 0
    for i, x in enumerate(order[:pos]):
        if x["k"] == "Continue" and not [g_ for g_ in guards_of(body, x) if g_[0] == "loop"]:
            continue        # `if c { continue }` of the entry loop is a guard clause: it was read as a guard of the report above
        if x["k"] in ("Break", "Continue", "Ret"):
            conds = [g_str(t) for t in guards_of(body, x) if t[0] in ("if",)]
            txt = " && ".join(c[1] for c in conds)
            exits += 1
            ok = ("limit" in txt and "found" in txt) or x.get("mac", "").startswith("desugar:QuestionMark") or \
                x.get("mac") == "desugar:ForLoop"
            ctx.obligation(ok)
            if not ok:
                ctx.violation("skip/early-exit/%s" % txt[:60], ctx.where(VISIT_DIR, x),
                              "`%s` under `%s` bypasses the report of the current entry; only the LIMIT exit may do that" % (x["k"].lower(), txt))
    ctx.covered("guards of the entry report and early exits before it", len(gs) + exits, distinct_keys=[str(g) for g in gs],
                sample=gs)
    ctx.floor(allowed, 6, "recognised guards on the path to check_file", VISIT_DIR)
    # the same for the two descent sites: a directory inside the window is entered under the listed conditions only
    for c in walk_exprs(hir):
        if c["k"] == "MCall" and c["m"] in ("push_back", "visit_dir"):
            gsd = with_exits(guards_of(hir, c), after_loop=True)
            if not any(t[0] == "match" and "read_dir" in render(t[1]) for t in gsd):
                continue
            pos_atoms, neg_atoms = guard_atoms(gsd)
            lets_ = [t[1] for t in gsd if t[0] == "if" and t[1]["k"] == "LetE"]
            for cj in pos_atoms + lets_ + [{"k": "Un", "op": "!", "e": a_, "sp": a_.get("sp", "?")} for a_ in neg_atoms]:
                if True:
                    rc = render(peel(cj, methods=False))
                    if rc.startswith("!") and ("limit" in rc or "is_buffered" in rc or "found" in rc):
                        continue    # the LIMIT stop written as a guard clause (C06-R2)
                    if rc.startswith("!") and rc[1:].lstrip("(").startswith("traversal_mode"):
                        continue
                    okc = _descent_cond_ok(rc)
                    ctx.obligation(okc)
                    if not okc:
                        ctx.violation("skip/descent-guard/%s" % rc[:50], ctx.where(VISIT_DIR, cj),
                                      "entering a directory is additionally conditioned on `%s`: sub-trees failing it are silently skipped" % rc)
    # `ok` (the entry is a directory, or a link leading to one) is decided by the listed tests only
    for x in walk_exprs(hir):
        if x["k"] == "Assign" and render(x["l"]) == "ok" and render(x["r"]) == "true":
            for t in guards_of(hir, x):
                if t[0] != "if" or any(t is g for g in []):
                    continue
                for cj in conjuncts(t[1]):
                    rc = render(peel(cj, methods=False))
                    if rc in ("pass_ignores",) or "depth" in rc or rc.startswith("let Result::Ok(file_type)"):
                        continue
                    okc = t[2] and (rc == "file_type.is_symlink()" or rc == "file_type.is_dir()" or rc.startswith("let Result::Ok(resolved)") or
                                     rc.endswith(".is_dir()") or rc == "self.current_follow_symlinks") or \
                        (not t[2] and rc == "file_type.is_symlink()")
                    ctx.obligation(bool(okc))
                    if not okc:
                        ctx.violation("skip/enterable/%s" % rc[:50], ctx.where(VISIT_DIR, cj),
                                      "whether an entry can be entered is additionally conditioned on `%s`" % rc)
    # pass_ignores is true when no ignore option is on (verdict table read by the finite interpreter, shared with C20-R2)
    import extra
    res, _hg, err = extra.pass_ignores_table(ctx)
    ok = res is not None and all(v is True for k, v in res[0].items() if not (k[0] or k[1] or k[2]))
    ctx.obligation(ok)
    if not ok:
        ctx.violation("skip/pass_ignores", ctx.where(VISIT_DIR), "without ignore options every entry must pass the ignore filter")


def r3(ctx):
    """queue discipline: FIFO, cleared per root, drained only by the top-level call"""
    methods = {}
    for fn in (VISIT_DIR, LSR, "searcher::Searcher::new", CHECK_FILE):
        h = ctx.prog.hir(fn)
        if not h:
            continue
        for c in walk_exprs(h):
            if c["k"] == "MCall" and "dir_queue" in render(c["recv"]):
                methods.setdefault(c["m"], []).append(fn)
    bad = set(methods) - {"push_back", "pop_front", "is_empty", "clear", "unwrap"}
    ok = not bad and "push_back" in methods and "pop_front" in methods
    ctx.obligation(ok)
    ctx.covered("methods invoked on dir_queue", sum(len(v) for v in methods.values()), distinct_keys=sorted(methods), sample=methods)
    if not ok:
        ctx.violation("queue/methods", ctx.where(VISIT_DIR), "the BFS queue must be used first-in first-out (push_back / pop_front); methods used: %s" % sorted(methods))
    ok = methods.get("clear") == [LSR]
    ctx.obligation(ok)
    if not ok:
        ctx.violation("queue/clear", ctx.where(LSR), "the queue must be cleared once per root, in list_search_results")
    hir = ctx.anchor_hir(VISIT_DIR)
    ps = params(ctx, VISIT_DIR)
    pq = ps[-1]
    pops = [c for c in walk_exprs(hir) if c["k"] == "MCall" and c["m"] == "pop_front"]
    ok = len(pops) == 1
    if ok:
        gs = [g_str(t) for t in guards_of(hir, pops[0])]
        ok = any(g[0] == "if" and pq in g[1] and "Bfs" in g[1] for g in gs) and any(g[0] == "loop" for g in gs)
        # drain loop is after (outside) the directory loop
        ok = ok and not any(g[0] == "match" and "read_dir" in g[1] for g in gs)
    ctx.obligation(ok)
    if not ok:
        ctx.violation("queue/drain", ctx.where(VISIT_DIR), "the queue must be drained by a loop guarded by `bfs && process_queue`, after the directory has been listed")
    rec = [c for c in walk_exprs(hir) if c["k"] == "MCall" and c["m"] == "visit_dir"]
    ok = len(rec) == 2 and all(render(c["args"][-1]) == "false" for c in rec)
    ctx.obligation(ok)
    if not ok:
        ctx.violation("queue/nested-drain", ctx.where(VISIT_DIR), "nested visit_dir calls must not drain the queue (process_queue = false)")
    lh = ctx.anchor_hir(LSR)
    top = [c for c in walk_exprs(lh) if c["k"] == "MCall" and c["m"] == "visit_dir"]
    ok = len(top) == 1 and render(top[0]["args"][-1]) == "true"
    ctx.obligation(ok)
    if not ok:
        ctx.violation("queue/top-level", ctx.where(LSR), "the per-root visit_dir call must drain the queue (process_queue = true)")
    ctx.covered("queue discipline checks", 5, distinct_keys=["fifo", "clear", "drain", "nested", "top"])


def _value_sources(hir, locs, e, depth=0):
    """callees (or other leaf renderings) an expression's value can come from, through locals, unwraps, if / match leaves"""
    out = set()
    if depth > 8:
        return {"?"}
    e = peel(e, methods=False)
    while e["k"] == "MCall" and e["m"] in ("unwrap", "expect", "clone", "as_str", "to_string", "to_owned", "as_ref", "unwrap_or_default", "as_path", "to_path_buf", "into"):
        e = peel(e["recv"], methods=False)
    if e["k"] == "Path" and e.get("rk") == "Local":
        d = locs.defs.get(e["res"]) or (locs.payload_defs.get(e["res"]) if hasattr(locs, "payload_defs") else None)
        if d is None:
            return {"local:" + str(e.get("name"))}
        return _value_sources(hir, locs, d, depth + 1)
    if e["k"] in ("If", "Match", "Block"):
        def branch_values(x):
            x = peel(x, methods=False)
            if x["k"] == "Block":
                if diverges(x) or "expr" not in x:
                    return []
                return branch_values(x["expr"])
            if x["k"] == "If":
                return branch_values(x["t"]) + (branch_values(x["e"]) if "e" in x else [])
            if x["k"] == "Match":
                return [v for a in x["arms"] for v in branch_values(a["body"])]
            if x["k"] in ("Ret", "Break", "Continue", "InlRet"):
                return []
            return [x]
        for leaf in branch_values(e):
            out |= _value_sources(hir, locs, leaf, depth + 1)
        return out or {"?"}
    if e["k"] == "Call":
        if e.get("ctor") and e["args"]:
            return _value_sources(hir, locs, e["args"][0], depth + 1)
        return {str(e.get("callee"))}
    if e["k"] == "MCall":
        return {"." + e["m"]}
    return {render(e)[:40]}


def r4(ctx):
    """sibling agreement of the recursive calls and parameter provenance"""
    hir = ctx.anchor_hir(VISIT_DIR)
    ps = params(ctx, VISIT_DIR)
    # the depth of a directory is counted on its canonical path: every calc_depth argument comes from util::canonical_path
    locs0 = Locals(hir)
    for c in walk_exprs(hir):
        if c["k"] == "Call" and str(c.get("callee", "")).endswith("util::calc_depth"):
            src = _value_sources(hir, locs0, c["args"][0])
            ok = src == {"util::canonical_path"}
            ctx.obligation(ok)
            if not ok:
                ctx.violation("depth/source", ctx.where(VISIT_DIR, c),
                              "the nesting depth must be counted on the canonical path of the directory (util::canonical_path); here it can also come from %s: "
                              "another spelling of the same directory (trailing separator, `..`, a link) has another number of separators" % sorted(src - {"util::canonical_path"}))
    rec = [c for c in walk_exprs(hir) if c["k"] == "MCall" and c["m"] == "visit_dir"]
    n = 0
    for c in rec:
        a = [render(x) for x in c["args"]]
        n += 1
        want = {1: ps[2], 2: ps[3], 4: ps[5], 5: ps[6]}       # argument 3 (the root's depth) is decided below, by value
        bad = {i: a[i] for i, w in want.items() if i < len(a) and a[i] != w}
        # every other pass-through parameter keeps its position
        for i in range(4, len(a) - 1):
            if a[i] in ps[1:] and ps[i + 1] != a[i] and a[i] != "git_repository":
                bad[i] = a[i]
        ok = not bad
        ctx.obligation(ok)
        if not ok:
            ctx.violation("recursion/args/%s" % "-".join("%d=%s" % kv for kv in sorted(bad.items())), ctx.where(VISIT_DIR, c),
                          "a nested visit_dir call passes %s; expected (path, %s, %s, base_depth, ...) positionally" % (bad, ps[2], ps[3]))
    if len(rec) == 2:
        a, b = ([render(x) for x in c["args"][1:]] for c in rec)
        ok = a == b
        ctx.obligation(ok)
        if not ok:
            ctx.violation("recursion/siblings", ctx.where(VISIT_DIR), "the DFS call and the BFS call pass different arguments: %s vs %s" % (a, b))
    # base depth: root's canonical depth at the top level, inherited below
    # (the value handed on as root depth by the nested calls, evaluated with the directory's own depth = 7)
    locs = Locals(hir)
    import interp
    handed = {peel(c["args"][3]).get("res") for c in rec if len(c["args"]) > 3 and peel(c["args"][3])["k"] == "Path"}
    bd = [x for x in walk(hir) if x["k"] == "Let" and x["pat"].get("id") in handed and "init" in x]
    ok = False
    if len(bd) == 1 and len(handed) == 1 and all(len(c["args"]) > 3 and peel(c["args"][3])["k"] == "Path" for c in rec):
        def depth_is_7(node, recv, args, it, env):
            if str(node.get("callee", "")).endswith("util::calc_depth"):
                return (7,)
            return None
        try:
            top = interp.eval_in(hir, bd[0]["init"], {ps[4]: 0}, call=depth_is_7)
            below = [interp.eval_in(hir, bd[0]["init"], {ps[4]: r}, call=depth_is_7) for r in (1, 3, 9)]
            ok = top == 7 and below == [1, 3, 9]
        except interp.Undecided:
            ok = False
    ctx.obligation(ok)
    if not ok:
        ctx.violation("recursion/base-depth", ctx.where(VISIT_DIR), "base depth must be the root's own canonical depth at the top level (root_depth = 0) and the inherited value below")
    # top-level call: options of this root
    lh = ctx.anchor_hir(LSR)
    llocs = Locals(lh)
    top = [c for c in walk_exprs(lh) if c["k"] == "MCall" and c["m"] == "visit_dir"]
    if len(top) == 1:
        a = [render(llocs.chase(x)) for x in top[0]["args"]]
        ok = a[1].endswith("options.min_depth") and a[2].endswith("options.max_depth") and a[3] == "0" and \
            a[4].endswith("options.archives") and "options.traversal" in a[-2]
        ctx.obligation(ok)
        if not ok:
            ctx.violation("recursion/top-args", ctx.where(LSR, top[0]), "the per-root call must pass this root's mindepth, maxdepth, root depth 0, archives, ..., traversal: %s" % a)
        g = [g_str(t) for t in guards_of(lh, top[0])]
        ok = any(x[0] == "loop" for x in g) and not any(x[0] in ("if", "ifnot") for x in g)
        ctx.obligation(ok)
        if not ok:
            ctx.violation("recursion/every-root", ctx.where(LSR, top[0]), "every root of the query must be visited unconditionally: %s" % g)
    ctx.covered("recursive / top-level visit_dir call sites (argument provenance)", n + 3, distinct_keys=["dfs", "bfs", "top", "base"])
    # roots: non-regexp roots are taken as they are
    pushes = [c for c in walk_exprs(lh) if c["k"] == "MCall" and c["m"] == "push" and render(c["recv"]) == "roots"]
    ok = any(render(c["args"][0]) == "root.clone()" for c in pushes)
    ctx.obligation(ok)
    if not ok:
        ctx.violation("roots/plain", ctx.where(LSR), "plain roots must be searched as given")


def r5(ctx):
    hir = ctx.anchor_hir(VISIT_DIR)
    # descent is control dependent on ok_to_visit_dir
    n = 0
    for c in walk_exprs(hir):
        if c["k"] == "MCall" and (c["m"] == "push_back" or c["m"] == "visit_dir"):
            gs = guards_of(hir, c)
            if not any(t[0] == "match" and "read_dir" in render(t[1]) for t in gs):
                continue
            n += 1
            ok = any(t[0] == "if" and t[2] and "ok_to_visit_dir" in render(t[1]) for t in gs)
            ctx.obligation(ok)
            if not ok:
                ctx.violation("symlink-gate/%s" % c["m"], ctx.where(VISIT_DIR, c), "descending into an entry is not guarded by ok_to_visit_dir")
    # ok_to_visit_dir, evaluated (finite interpreter) on (follow option, entry is a link, inode seen before): without
    # `symlinks` exactly the links are refused; an inode seen before is refused; a new inode is recorded
    import interp
    oh = ctx.anchor_hir(OK_TO_VISIT)
    ps = ctx.prog.fns[OK_TO_VISIT]["params"]
    tbl = {}
    bad_tbl = bad_vis = None
    unix = any(c["k"] == "MCall" and c["m"] == "ino" for c in walk_exprs(oh))
    stats = any(c["k"] == "MCall" and c["m"] in ("metadata", "symlink_metadata") for c in walk_exprs(oh))
    bad_stat = None
    for follow in (False, True):
        for is_link in (False, True):
            for seen in ((False, True) if unix else (False,)):
                for stat_ok in ((True, False) if stats else (True,)):
                    # the visited set may be keyed by the inode or by (device, inode)
                    visited = {7, (1, 7)} if seen else set()

                    def call(node, recv, args, it, env, is_link=is_link, stat_ok=stat_ok):
                        m = node.get("m")
                        if m == "ino":
                            return (7,)
                        if m == "dev":
                            return (1,)
                        if m == "is_symlink":
                            return (is_link,)
                        if m in ("metadata", "symlink_metadata") and isinstance(recv, interp.Opaque):
                            return (interp.V("Result::Ok", [interp.Opaque("metadata")]) if stat_ok else interp.V("Result::Err", [interp.Opaque("EACCES")]),)
                        return None
                    env = {}
                    selfv = interp.LazySelf({"current_follow_symlinks": follow, "visited_inodes": visited, "error_count": 0})
                    for p_ in ps:
                        if p_.get("k") == "Bind":
                            env[p_["id"]] = selfv if p_["name"] == "self" else interp.Opaque(p_["name"])
                    try:
                        got = interp.Interp(call=call, prog=ctx.prog).run(oh, env)
                    except interp.Undecided as e:
                        bad_tbl = "cannot evaluate ok_to_visit_dir: %s" % e
                        break
                    n += 1
                    if not stat_ok:
                        # nothing is known about the entry: it may be tried (visit_dir reports what fails) or the failure
                        # counted - but not dropped without a trace
                        if got is False and not selfv["error_count"] and (follow or not is_link) and bad_stat is None:
                            bad_stat = "follow=%s link=%s: the entry cannot be stat'ed and is refused without counting an error" % (follow, is_link)
                        continue
                    want = (not seen) and (follow or not is_link)
                    recorded = 7 in visited or (1, 7) in visited
                    if got != want and bad_tbl is None:
                        if seen or (unix and not recorded):
                            bad_vis = "follow=%s link=%s inode seen before=%s -> %s" % (follow, is_link, seen, got)
                        else:
                            bad_tbl = "follow=%s link=%s -> %s" % (follow, is_link, got)
                    if unix and not seen and not recorded and bad_vis is None:
                        bad_vis = "a new inode is not recorded (follow=%s link=%s)" % (follow, is_link)
    ctx.obligation(bad_stat is None)
    if bad_stat:
        ctx.violation("symlink-gate/stat-failure", ctx.where(OK_TO_VISIT),
                      "a directory whose attributes cannot be read must not vanish from the search silently (%s): its sub-tree is neither listed nor reported, and the exit status stays 0" % bad_stat)
    ctx.obligation(bad_tbl is None)
    ctx.covered("descent sites guarded by ok_to_visit_dir; ok_to_visit_dir evaluated on follow x link x seen-before", n + 2, distinct_keys=["dfs", "bfs", "table"], exhaustive=True)
    if bad_tbl:
        ctx.violation("symlink-gate/table", ctx.where(OK_TO_VISIT), "without `symlinks`, ok_to_visit_dir must refuse exactly the symbolic links (%s)" % bad_tbl)
    ctx.obligation(bad_vis is None)
    if bad_vis:
        ctx.violation("symlink-gate/visited", ctx.where(OK_TO_VISIT), "a directory may be refused only if its inode was recorded before, and a new inode must be recorded (%s)" % bad_vis)
    # default root
    dh = ctx.anchor_hir("query::Root::default")
    lits = [x["v"] for x in walk_exprs(dh) if x["k"] == "Lit" and x["lk"] == "str"]
    ok = lits == ["."]
    ctx.obligation(ok)
    if not ok:
        ctx.violation("default-root", ctx.where("query::Root::default"), "the default root must be the current directory `.`; found %s" % lits)
    ph = ctx.anchor_hir("parser::Parser::parse")
    dc = calls_to(ph, "query::Root::default")
    ok = len(dc) == 1 and any(t[0] == "if" and t[2] and "roots.is_empty()" in render(t[1]) for t in guards_of(ph, dc[0]))
    ctx.obligation(ok)
    if not ok:
        ctx.violation("default-root/use", ctx.where("parser::Parser::parse"), "the default root must be used exactly when the query names no root")


FOLLOW_STAT = ("std::fs::metadata", "std::path::Path::metadata", "std::path::Path::is_dir", "std::path::Path::is_file",
               "std::path::Path::exists", "std::fs::canonicalize", "std::path::Path::canonicalize", "std::path::Path::read_dir",
               "std::path::Path::is_symlink")


def r6(ctx):
    """follow-stat discipline: in the walker a stat that follows links may be used only under the follow option or in the
    explicit symlink branch; everything that decides about an entry in no-follow mode must look at the entry itself"""
    n = 0
    for fn in (VISIT_DIR, OK_TO_VISIT, LSR):
        hir = ctx.anchor_hir(fn)
        body = ctx.anchor_body(fn)
        mir_calls = {}
        for i, t in body.calls():
            c = body.callee(t)
            if c in FOLLOW_STAT:
                mir_calls.setdefault(t["sp"], c)
        for x in walk_exprs(hir):
            if x["k"] not in ("Call", "MCall"):
                continue
            c = mir_calls.get(x["sp"]) if x["k"] == "MCall" else (x.get("callee") if x.get("callee") in FOLLOW_STAT else None)
            if x["k"] == "MCall" and c is not None and short(c, 1) != x["m"]:
                c = None
            if c is None:
                continue
            n += 1
            gs = guards_of(hir, x) or []
            under_follow = False
            for t in gs:
                if t[0] == "if" and t[2] and ("current_follow_symlinks" in render(t[1]) or render(peel(t[1], methods=False)) == "file_type.is_symlink()"):
                    under_follow = True
                if t[0] == "match" and "current_follow_symlinks" in render(t[1]) and render_pat(t[2]) == "true":
                    under_follow = True
            if not under_follow:
                # the same conditions established by a guard clause (`if !file_type.is_symlink() { return .. }` in an extracted helper)
                try:
                    pos_, _neg = guard_atoms(with_exits(gs))
                except Exception:
                    pos_ = []
                for a_ in pos_:
                    pa_ = peel(a_, methods=False)
                    if "current_follow_symlinks" in render(pa_) or (pa_["k"] == "MCall" and pa_["m"] == "is_symlink" and "FileType" in str(pa_["recv"].get("ty", ""))):
                        under_follow = True
            # regexp root expansion lists candidate root directories before the walk proper
            if fn == LSR and any(t[0] == "if" and "options.regexp" in render(t[1]) for t in gs):
                under_follow = True
            ctx.obligation(under_follow)
            if not under_follow:
                ctx.violation("follow-stat/%s/%s" % (short(fn, 1), short(c, 2)), ctx.where(fn, x),
                              "`%s` follows symbolic links but is used outside the `symlinks` option / the explicit symlink branch: "
                              "in no-follow mode a decision about an entry would be taken from what a link points to" % render(x)[:60])
    ctx.covered("link-following stat calls in visit_dir / ok_to_visit_dir / list_search_results and their guards", n,
                distinct_keys=["sites:%d" % n])
    ctx.floor(n, 3, "link-following stat calls in the walker", VISIT_DIR)



def r7(ctx):
    """every way out of the per-entry loop body of visit_dir before the descent is one of the reviewed classes: loop
    exhaustion, the LIMIT stop (exactness decided by C06), propagation of a closed output.  Anything else (`continue`
    after the archive block, an early `break`) drops the descent into, or the siblings after, some entry."""
    h = ctx.anchor_hir(VISIT_DIR)
    _note_descent_flag(h)
    n = 0
    for x in walk_exprs(h):
        if x["k"] not in ("Continue", "Break", "Ret"):
            continue
        gs = [g for g in (guards_of(h, x) or []) if g[0] not in ("exit", "exitmatch")]
        texts = [guard_text(g) for g in gs]
        if not any(g[0] == "loop" for g in gs) or not any("read_dir" in t for t in texts):
            continue
        # break / continue leave their innermost loop only: those of an inner loop (archive members) do not end the round of
        # the entry loop and are the member loop's business (C19-R1)
        loops = [g[1] for g in gs if g[0] == "loop"]
        if x["k"] in ("Break", "Continue") and len(loops) > 1:
            continue
        if x["k"] == "Continue":
            # a `continue` of the entry loop is a guard clause for what follows it in the body: it matters only if a descent
            # (or the report) follows, and then its condition must be one of the reviewed ones
            body = loops[-1]["body"] if loops and "body" in loops[-1] else (loops[-1] if loops else h)
            order = list(walk_exprs(body))
            pos = next((i for i, y in enumerate(order) if y is x), -1)
            later = [y for y in order[pos + 1:] if y["k"] == "MCall" and y["m"] in ("push_back", "visit_dir", "check_file")]
            n += 1
            if not later:
                ctx.obligation(True)
                continue
            own = [g for g in gs if g[0] in ("if", "match")][-1:] if gs else []
            okc = True
            why = ""
            for g in own:
                if g[0] == "match":
                    okc = "Err" in render_pat(g[2])         # a failing entry / file_type: counted and skipped (C17-R1)
                    why = guard_text(g)
                else:
                    pos_, neg_ = guard_atoms([g])
                    for a_ in neg_:
                        rc = render(peel(a_, methods=False))
                        if not _descent_cond_ok(rc):
                            okc, why = False, "!" + rc
                    for a_ in pos_:
                        rc = render(peel(a_, methods=False))
                        # positive conditions of a skip: the complement of a reviewed condition, or the LIMIT stop
                        if not (("limit" in rc and "found" in rc) or (rc.startswith("!") and _descent_cond_ok(rc[1:].strip())) or
                                ("max_depth" in rc) or ("min_depth" in rc) or rc.replace("(", "").startswith("traversal_mode")):
                            okc, why = False, rc
            ctx.obligation(okc)
            if not okc:
                inner = [t for t in texts if "is_zip_archive" in t]
                ctx.violation("visit_dir/early-exit/continue/%s" % re.sub(r"[^A-Za-z0-9_.!]+", "_", why or texts[-1])[:60], ctx.where(VISIT_DIR, x),
                              "`continue` inside the entry loop of visit_dir under `%s`%s: the entries it skips are neither descended into nor "
                              "followed by their siblings, so rows of the depth window are lost" %
                              (why or texts[-1], " (archive branch: a directory may carry an archive name)" if inner else ""))
            continue
        n += 1
        last = texts[-1] if texts else ""
        locs_ = Locals(h)
        last_chased = last
        if gs and gs[-1][0] == "if" and gs[-1][1]["k"] != "LetE":
            pos_, neg_ = guard_atoms([gs[-1]])
            last_chased = " ".join(render(locs_.chase(a_)) for a_ in pos_ + neg_)
            # the condition may reach check_file through a helper (inlined by the normaliser; `render` abbreviates nested
            # blocks): look at the tree, not at its text
            if any(y["k"] == "MCall" and y["m"] == "check_file" for a_ in pos_ + neg_ for y in walk_exprs(locs_.chase(a_))):
                last_chased += " check_file"
        cls = None
        if x["k"] == "Break" and last.endswith("is Option::None {..}") and "Iterator::next" in last:
            cls = "loop-exhausted"
        elif x["k"] == "Break" and "limit" in last_chased + last and ("is_buffered" in last_chased + last or "found" in last_chased + last):
            cls = "limit"       # exactness of the stop condition: C06-R2
        elif x["k"] == "Ret" and ("check_file" in last_chased or ("Try::branch" in last and "ControlFlow::Break" in last)):
            cls = "output-closed"
        ctx.obligation(cls is not None)
        if cls is None:
            inner = [t for t in texts if "is_zip_archive" in t]
            ctx.violation("visit_dir/early-exit/%s/%s" % (x["k"].lower(), re.sub(r"[^A-Za-z0-9_.!]+", "_", last)[:60]), ctx.where(VISIT_DIR, x),
                          "`%s` inside the entry loop of visit_dir under `%s`%s: the entries it skips are neither descended into nor "
                          "followed by their siblings, so rows of the depth window are lost" %
                          (render(x), last, " (archive branch: a directory may carry an archive name)" if inner else ""))
    ctx.covered("ways out of the per-entry loop of visit_dir, each in a reviewed class", n, distinct_keys=["loop-exhausted", "limit", "output-closed"])
    ctx.floor(n, 6, "exits of the entry loop", VISIT_DIR)

def r8(ctx):
    """every search root is walked: the top-level visit_dir call of list_search_results is reached in every round of the
    loop over the roots"""
    hir = ctx.anchor_hir(LSR)
    top = [c for c in walk_exprs(hir) if c["k"] == "MCall" and c["m"] == "visit_dir"]
    n = 0
    for c in top:
        gs = guards_of(hir, c)
        its = [it for it in find_iterations(hir) if any(y is c for y in walk_exprs(it["body"]))]
        ok_loop = any("roots" in render(it["iter"]) for it in its)
        n += 1
        ctx.obligation(ok_loop)
        if not ok_loop:
            ctx.violation("roots/loop", ctx.where(LSR, c), "the top-level visit_dir call is not inside the loop over the search roots")
            continue
        loop_nodes = [it["node"] for it in its]
        for g in with_exits(gs, after_loop=True):
            if g[0] == "loop":
                continue
            if g[0] == "match" and (g[3] == "ForLoopDesugar" if len(g) > 3 else False):
                continue
            if g[0] == "match" and ("into_iter" in render(g[1]) or "Iterator::next" in render(g[1])):
                continue
            txt = guard_text(g)
            pos_, _neg = guard_atoms([g]) if g[0] == "if" else ([], [])
            if g[0] == "if" and any("limit" in render(a_) and "found" in render(a_) for a_ in _neg):
                continue        # `if limit reached { break }`: rows beyond LIMIT are not wanted
            n += 1
            ctx.obligation(False)
            ctx.violation("roots/skipped/%s" % re.sub(r"[^A-Za-z0-9_.!]+", "_", txt)[:60], ctx.where(LSR, c),
                          "a search root is walked only under `%s`: every listed root must be searched, roots are disjoint by "
                          "assumption and a textual or structural test on them drops whole subtrees" % txt[:160])
    ctx.floor(len(top), 1, "top-level visit_dir call", LSR)
    ctx.covered("guards (guard clauses included) of the per-root visit_dir call", n, distinct_keys=["top:%d" % len(top)])


RULES = [
    ("C01-R1", "depth window: reporting and descent gates on the depth grid", r1),
    ("C01-R2", "no unlisted skip on the path to reporting an entry", r2),
    ("C01-R3", "BFS queue discipline", r3),
    ("C01-R4", "recursive / top-level call arguments, base depth, every root visited", r4),
    ("C01-R5", "symlink gate, visited inodes, default root", r5),
    ("C18-R3", "every directory is listed at most once when links are followed [shared with C18]", lambda ctx: __import__("c18").r3(ctx)),
    ("C01-R6", "follow-stat discipline of the walker", r6),
    ("C01-R7", "no unreviewed way out of the per-entry loop before the descent", r7),
    ("C01-R8", "every search root is walked (no conditional skip in the loop over the roots)", r8),
    ("X-ROOTS", "root option defaults, Root::new and the per-root reset of parse_roots [shared]", lambda ctx: __import__("extra").root_defaults(ctx)),
    ("C17-R1", "a failure inside the entry loop costs that entry only: failure branches count, report and continue; no `?` but check_file's [shared with C17]", lambda ctx: __import__("c17").r1(ctx)),
    ("X-CANON", "util::canonical_path answers with the path resolved by fs::canonicalize (no shortcut for paths that look canonical) [shared]", lambda ctx: __import__("extra2").canonical_path_is_canonical(ctx)),
]

EXPLANATION = (
    "Static structural necessary conditions of C01 on Searcher::visit_dir / list_search_results / ok_to_visit_dir: "
    "the guards under which an entry is reported and under which a directory is entered are extracted and evaluated, "
    "together with the extracted level formula (canonical depth - base depth + 1, base depth from root_depth), on a "
    "grid of canonical depths, root depths, mindepth and maxdepth against `min = 0 or level >= min` and `max = 0 or "
    "level < max`; the report has no guard other than the listed ones (read_dir ok, entry ok, ignore filter, depth "
    "gate) and no early exit other than LIMIT precedes it; the BFS queue is push_back/pop_front only, cleared per "
    "root and drained only by the top-level call; both recursive calls pass the same positional arguments with "
    "base_depth; every root is visited unconditionally with its own options; descent is guarded by ok_to_visit_dir, "
    "which refuses exactly symlinks unless `symlinks` is set; the default root is `.`. What read_dir yields, "
    "canonicalisation, row order on a real tree and dedupe across overlapping roots are not decided."
    ' Every way out of the per-entry loop is in a reviewed class (loop exhaustion, LIMIT, closed output); RootOptions::new yields the documented defaults and parse_roots starts every root of a comma list afresh.')
ASSUMPTIONS = ["rustc's HIR faithfully represents the source; exporter and rule scripts are correct",
               "std::fs::read_dir yields every entry of a directory exactly once", "VecDeque push_back/pop_front is FIFO"]
NOT_DECIDED = ["that read_dir yields every entry once", "canonicalisation and inode behaviour of the OS",
               "row order on a real tree (bfs level order, dfs subtree contiguity)", "dedupe across overlapping roots"]
