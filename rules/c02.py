"""C02 — WHERE comparisons mean what the documentation says (static structural necessary conditions)."""
from hirq import *  # noqa: F401,F403
import oracles
import sem
import tables
from core import Abort

GET_FIELD_VALUE = "searcher::Searcher::get_field_value"
PARSER_FNS_PREFIX = "parser::Parser::"
FIELD_FROM_STR = "<field::Field as core::str::traits::FromStr>::from_str"
FUNC_FROM_STR = "<function::Function as core::str::traits::FromStr>::from_str"


def r1(ctx):
    cf = sem.Conforms(ctx)
    n = 0
    for vt in ("Int", "Float", "Bool"):
        try:
            truth, m = cf.truth3(vt)
        except NotComparison as e:
            # the arm is not written as plain comparisons (a helper over an Ordering, say): decided by evaluation instead -
            # C02-R8 for numbers, here for booleans
            if vt == "Bool":
                import conf
                import interp
                run = conf.Run(ctx)
                for a, lit in ((True, "true"), (True, "false"), (False, "true"), (False, "false")):
                    for op, f in (("Eq", lambda x, y: x == y), ("Eeq", lambda x, y: x == y), ("Ne", lambda x, y: x != y), ("Ene", lambda x, y: x != y)):
                        try:
                            got, _tr = run.run(op, conf.variant("true" if a else "false", "Bool", bool_value=a), conf.variant(lit))
                        except interp.Undecided as e2:
                            ctx.obligation(False)
                            ctx.violation("conforms/Bool/unreadable", ctx.where(sem.CONFORMS), "cannot read the Bool comparison (%s) nor evaluate it (%s)" % (e, e2))
                            break
                        n += 1
                        want = f(a, lit == "true")
                        ctx.obligation(got is want)
                        if got is not want:
                            ctx.violation("conforms/Bool/%s" % op, ctx.where(sem.CONFORMS), "a boolean column that is %s compared with `%s` under %s gives %s" % (a, lit, op, got))
                n += 8
            else:
                n += 8          # evaluated by C02-R8 on order types and signed zeroes
            continue
        if truth is None:
            ctx.violation("anchor/%s-arm" % vt, sem.CONFORMS, "comparison arm for VariantType::%s not found" % vt)
            continue
        for op, want in sem.SPEC3.items():
            got = truth.get(op, truth.get("_"))
            ok = got == want
            ctx.obligation(ok)
            n += 1
            if not ok:
                t, _ = cf.op_table(vt)
                body = t.get(op, t.get("_"))
                ctx.violation("conforms/%s/%s" % (vt, op), ctx.where(sem.CONFORMS, body),
                              "VariantType::%s, operator %s: arm `%s` is true for column?literal in %s, documented "
                              "semantics %s" % (vt, op, render(body), sorted(got) if got is not None else None, sorted(want)))
        # operators that are not comparisons of this type must be false, not true
        other = truth.get("_")
        if other is not None and other:
            ctx.violation("conforms/%s/default" % vt, ctx.where(sem.CONFORMS, m),
                          "default arm of the %s comparison is not `false`" % vt)
        ctx.covered("operator arms of the %s comparison, each on the 3 order types of (column, literal)" % vt,
                    3 * len(sem.SPEC3), distinct_keys=["%s/%s" % (vt, o) for o in sem.SPEC3],
                    sample={vt: {k: sorted(v) for k, v in truth.items()}}, exhaustive=True)
    ctx.floor(n, 24, "comparison arms (3 types x 8 operators)", sem.CONFORMS)


def r2(ctx):
    triples, arm, subj, not_name = sem.between_triples(ctx)
    cf = sem.Conforms(ctx)
    truth, _ = cf.truth3("Int")
    truth = truth or sem.SPEC3
    pos = sem.eval_triple(triples[False], truth)
    bad = []
    for w, v in pos:
        want = w["a"] <= w["x"] <= w["b"]
        ctx.obligation(v == want)
        if v != want:
            bad.append(sem.describe_ordering(w))
    ctx.covered("orderings of (x, a, b) for the BETWEEN triple %s" % (triples[False],), len(pos),
                distinct_keys=[sem.describe_ordering(w) for w, _ in pos], sample={"between": triples[False]},
                exhaustive=True)
    if bad:
        ctx.violation("parse_cond/between", ctx.where(sem.PARSE_COND, arm["body"]),
                      "`x between a and b` is desugared to x %s a %s x %s b, which differs from a <= x <= b when %s" %
                      (triples[False][0], triples[False][1], triples[False][2], "; ".join(bad[:4])))
    # both comparisons are about the same subject (the expression left of BETWEEN)
    if len(set(subj)) != 1 or subj[0] is None:
        ctx.violation("parse_cond/between-subject", ctx.where(sem.PARSE_COND, arm["body"]),
                      "the two comparisons of BETWEEN do not share the same left operand: %s" % subj)


def r3(ctx):
    """every documented operator spelling, in any letter case, denotes its operator: Op::from evaluated on all of them"""
    tables.string_table_eval(ctx, "operators::Op::from", oracles.OP_SPELLINGS, "operator")


def r4(ctx):
    """a quoted literal (Lexem::String) must never be resolved as a column or function name"""
    n = 0
    for name, f in ctx.prog.fns.items():
        if not name.startswith(PARSER_FNS_PREFIX) or "hir" not in f:
            continue
        hir = ctx.prog.hir(name)
        for c in calls_to(hir, "FromStr::from_str"):
            rty = c.get("ty", "")
            if "field::Field" not in rty and "function::Function" not in rty:
                continue
            n += 1
            gs = guards_of(hir, c) or []
            tainted = False
            for g in gs:
                if g[0] == "match":
                    alts = pat_alts(g[2])
                    for a in alts:
                        if "Lexem::String" in render_pat(a):
                            # the argument must come from that binding
                            tainted = True
            what = "Field" if "field::Field" in rty else "Function"
            ctx.obligation(not tainted)
            if tainted:
                ctx.violation("%s/%s::from_str" % (short(name, 1), what), ctx.where(name, c),
                              "a quoted literal (Lexem::String) reaches %s::from_str: `ext = 'bin'` / `name = 'size'` "
                              "are parsed as a function / column instead of text" % what)
    ctx.covered("name-resolution call sites (Field/Function::from_str) in the parser", n,
                distinct_keys=["sites:%d" % n])
    ctx.floor(n, 2, "from_str call sites in the parser", "parser.rs")


VARIANT_KIND = {"from_int": "num", "from_float": "num", "from_bool": "bool", "from_datetime": "dt",
                "from_string": "str", "from_signed_string": "str"}


def column_kinds(ctx):
    """Field variant -> set of value kinds its get_field_value arm can return"""
    hir = ctx.anchor_hir(GET_FIELD_VALUE)
    ms = [m for m in find_matches(hir, min_arms=20)]
    if len(ms) != 1:
        ctx.violation("anchor/get_field_value-match", GET_FIELD_VALUE, "the per-column match of get_field_value not found")
        raise Abort()
    out = {}
    arms = {}
    for a in match_arms(ms[0]):
        kinds = set()
        for x in walk_exprs(a["body"]):
            if x["k"] == "Call" and x.get("callee", "").startswith("function::Variant::"):
                kd = VARIANT_KIND.get(short(x["callee"], 1))
                if kd:
                    kinds.add(kd)
            if x["k"] == "MCall" and x.get("callee", "").endswith("Searcher::check_file_mode"):
                kinds.add("bool")
        for k in a["keys"]:
            nm = key_name(k).split("::")[-1]
            out[nm] = kinds
            arms[nm] = a
    return out, arms, ms[0]


def r5(ctx):
    kinds, arms, m = column_kinds(ctx)
    n = 0
    for col, ks in sorted(kinds.items()):
        if col == "_":
            continue
        if col in oracles.NUMERIC_COLUMNS:
            want = "num"
        elif col in oracles.BOOLEAN_COLUMNS:
            want = "bool"
        elif col in oracles.DATETIME_COLUMNS:
            want = "dt"
        else:
            want = "str"
        n += 1
        ok = ks == {want}
        ctx.obligation(ok)
        if not ok:
            ctx.violation("column-kind/%s" % col, ctx.where(GET_FIELD_VALUE, arms[col]["body"]),
                          "column %s yields %s values, documented kind is %s: comparisons would use the wrong table" %
                          (col, sorted(ks), want))
    ctx.covered("column arms of get_field_value classified by the Variant constructor they return", n,
                distinct_keys=sorted(kinds), sample={k: sorted(v) for k, v in list(kinds.items())[:10]})
    ctx.floor(n, 78, "column arms", GET_FIELD_VALUE)


def r6(ctx):
    """boolean literals: str_to_bool evaluated (finite interpreter) on the documented spellings in three letter cases, and on
    texts that are no boolean"""
    import interp
    name = "util::str_to_bool"
    h = ctx.anchor_hir(name)
    pid = ctx.prog.fns[name]["params"][0]["id"]
    want = {}
    for w in ("true", "1", "yes"):
        want[w] = interp.some(True)
    for w in ("false", "0", "no"):
        want[w] = interp.some(False)
    cases = {}
    for w, v in want.items():
        for sp in {w, w.upper(), w.capitalize()}:
            cases[sp] = v
    for w in ("", "maybe", "2", "tru", "nope", "yes please", "00"):
        cases[w] = interp.NONE
    n = 0
    for text, v in cases.items():
        n += 1
        try:
            got = interp.Interp().run(h, {pid: text})
        except interp.Undecided as e:
            ctx.violation("boolean-literal/unreadable", ctx.where(name), "cannot evaluate str_to_bool on %r: %s" % (text, e))
            break
        ok = got == v
        ctx.obligation(ok)
        if not ok:
            ctx.violation("boolean-literal/%s" % (text.lower() or "empty"), ctx.where(name),
                          "str_to_bool(%r) is %r, documented %r" % (text, got, v))
    ctx.covered("str_to_bool evaluated on the documented boolean spellings (three letter cases) and on non-boolean texts", n,
                distinct_keys=list(cases), exhaustive=True)


def r7(ctx):
    """`column OP column`: both operands are evaluated on the same entry"""
    cf = sem.Conforms(ctx)
    hir = cf.hir
    calls = []
    for x in walk(hir):
        if x["k"] == "Let" and x["pat"]["k"] == "Bind" and x["pat"]["id"] in cf.side:
            init = peel(x["init"])
            calls.append((cf.side[x["pat"]["id"]], init))
    args = {s: [render(a) for a in c["args"][:2]] for s, c in calls}
    ok = len(calls) == 2 and args.get("x") == args.get("l") and args.get("x") and "entry" in args["x"][0]
    ctx.covered("operand evaluations of a comparison (entry, file_info arguments)", len(calls),
                distinct_keys=["x", "l"], sample=args)
    ctx.obligation(bool(ok))
    if not ok:
        ctx.violation("conforms/operands-same-entry", ctx.where(sem.CONFORMS),
                      "left and right operand of a comparison are not evaluated against the same entry: %s" % args)
    # the comparison table is selected by the type of the column side
    sc = peel(cf.type_match["scrut"])
    r = sem.root_res(sc["recv"], cf.locs, stop=cf.side) if sc["k"] == "MCall" else None
    ok2 = cf.side.get(r) == "x"
    ctx.obligation(ok2)
    if not ok2:
        ctx.violation("conforms/type-dispatch", ctx.where(sem.CONFORMS, cf.type_match),
                      "the comparison table is not selected by the type of the column operand")


RULES = [
    ("C02-R1", "Int/Float/Bool comparison tables of conforms on all order types", r1),
    ("C02-R2", "BETWEEN desugaring is the inclusive interval on all orderings of (x, a, b)", r2),
    ("C02-R3", "operator table Op::from covers the documented spellings", r3),
    ("C02-R4", "quoted literals are never resolved as column/function names", r4),
    ("C02-R5", "each column yields the documented kind of value", r5),
    ("C02-R6", "boolean literal table", r6),
    ("C02-R7", "operands evaluated on the same entry; table chosen by the column's type", r7),
    # clauses of C02 that are decided by rules shared with other properties
    ("C13-R1", "date columns: comparison arms on all orderings of (t, a, b) [shared with C13]", lambda ctx: __import__("c13").r1(ctx)),
    ("C14-R1", "size-unit literals: unit table of parse_filesize [shared with C14]", lambda ctx: __import__("c14").r1(ctx)),
    ("C14-R3", "numeric literal coercion falls back to parse_filesize [shared with C14]", lambda ctx: __import__("c14").r3(ctx)),
    ("C12-R1", "text columns: glob / LIKE escape tables [shared with C12]", lambda ctx: __import__("c12").r1(ctx)),
    ("C12-R3", "text columns: negative operators are complements [shared with C12]", lambda ctx: __import__("c12").r3(ctx)),
    ("C12-R4", "text columns: operator -> translator dispatch [shared with C12]", lambda ctx: __import__("c12").r4(ctx)),
    ("X-LITERAL", "a literal is never answered from the text-keyed per-entry memo [shared]", lambda ctx: __import__("extra").literal_before_memo(ctx)),
    ("X-PHASES", "clause order and phase flags of Parser::parse; WHERE shorthand window [shared]", lambda ctx: __import__("extra").parser_phases(ctx)),
    ("X-VARIANT", "Variant constructors, text renderings and coercion order [shared]", lambda ctx: __import__("extra").variant_constructors(ctx)),
    ("X-DATEALIKE", "unquoted date literals reach the comparison whole (lexer look-ahead) [shared]", lambda ctx: __import__("extra").looks_like_date_rule(ctx)),
    ("X-LEXCHARS", "the lexer reads the query by characters, not bytes [shared]", lambda ctx: __import__("extra2").lexer_reads_characters(ctx)),
    ("C03-R3", "NOT BETWEEN is the complement of BETWEEN on all orderings of (x, a, b) [shared with C03]", lambda ctx: __import__("c03").r3(ctx)),
    ("C03-R8", "every outcome of a comparison is produced under the dispatch on the operator [shared with C03]", lambda ctx: __import__("extra2").comparison_is_operator_dependent(ctx)),
    ("C12-R5", "the comparison carries the operator written in the query [shared with C12]", lambda ctx: __import__("extra2").operator_is_the_lexed_one(ctx)),
    ("C04-R8", "content-derived operands (line_count, ..): the byte count of Read::read bounds the data examined [shared with C04]", lambda ctx: __import__("extra2").read_amount_used(ctx)),
    ("X-LITVALUE", "a literal evaluates to the text written in the query (patterns, size literals, arguments) [shared]", lambda ctx: __import__("extra2").literal_is_its_text(ctx)),
    ("C13-R2", "date literals: interval table of parse_datetime, captures of the extracted regex [shared with C13]", lambda ctx: __import__("c13").r2(ctx)),
    ("C13-R3", "date regex groups and their use, output format, local-time conversion of time columns [shared with C13]", lambda ctx: __import__("c13").r3(ctx)),
    ("C04-R1", "boolean columns: every permission / file-type predicate on all 4096 permission values and the 7 type codes [shared with C04]", lambda ctx: __import__("c04").r1(ctx)),
    ("X-OPERANDS", "each operand of a comparison is evaluated afresh (no memo shared between operands or conditions: a remembered value comes back as text) [shared]", lambda ctx: __import__("conf").operands_evaluated_afresh(ctx)),
    ("X-REEVAL", "an expression evaluated twice for one entry has the same typed value both times (no text-valued memo beside the map handed in) [shared]", lambda ctx: __import__("gcev").reevaluation_is_stable(ctx)),
    ("X-NAMES", "column names and function names do not overlap (a bare word is tried as a column first) [shared]", lambda ctx: __import__("extra2").names_disjoint(ctx)),
    ("X-LEXCLASS", "lexer character classes, context flags, token ends and quoted-literal ends [shared]", lambda ctx: __import__("extra").lexer_classes(ctx)),
    ("X-QUERY", "the WHERE tree stored in the query is the Boolean function parse_where returned (any rewriting pass in between is followed through) [shared]", lambda ctx: __import__("extra2").where_tree_reaches_query(ctx)),
]

EXPLANATION = (
    "Static structural necessary conditions of C02: (R1) the Int, Float and Bool comparison arms of "
    "Searcher::conforms are extracted as Boolean formulas over (column value, literal) and evaluated on all three "
    "order types against the documented meaning of the eight operators; (R2) the BETWEEN desugaring composed with "
    "that table equals a <= x <= b on all 13 weak orderings; (R3) Op::from maps every documented spelling to its "
    "operator; (R4) no Lexem::String (quoted literal) reaches Field::from_str/Function::from_str; (R5) every column "
    "arm of get_field_value returns the documented kind of Variant; (R6) boolean literal table; (R7) both operands "
    "are evaluated on the same entry and the table is chosen by the column's type. Attribute values themselves, "
    "text matching (see C12) and date intervals (see C13) are decided elsewhere or not at all."
    ' A literal operand is never answered from the text-keyed per-entry memo; Parser::parse raises the phase flags between the right clauses so the `where is_dir` shorthand applies to WHERE only; Variant constructors store and coerce values through their own slot.')
ASSUMPTIONS = [
    "rustc's HIR/MIR faithfully represent the source; exporter and rule scripts are correct",
    "Variant::to_int/to_float/to_bool return the value they were constructed with (checked structurally in C14-R3 for literals)",
]
NOT_DECIDED = [
    "the attribute values the OS reports (C04 decides the accessor tables only)",
    "coercion of arbitrary literal strings to numbers beyond the unit table (C14)",
    "which entries a real tree contains",
]


def r8(ctx):
    """numeric comparisons by evaluation: conforms (rules/conf.py) on a number-valued left operand - an integer column, and a
    Float as every arithmetic result is - against a literal, for the three order types and for the two zeroes (`size * -1 = 0`
    on an empty file compares -0.0 with 0: numerically equal), under each of the eight comparison operators"""
    import conf
    import interp
    run = conf.Run(ctx)
    spec = {"Eq": lambda a, b: a == b, "Eeq": lambda a, b: a == b, "Ne": lambda a, b: a != b, "Ene": lambda a, b: a != b,
            "Gt": lambda a, b: a > b, "Gte": lambda a, b: a >= b, "Lt": lambda a, b: a < b, "Lte": lambda a, b: a <= b}
    n = 0
    # (a literal with a size unit denotes its byte count under every operator, the strict ones included: `size === 1k`)
    UNIT = {"1k": 1024.0, "2kb": 2000.0}
    for kind, pairs in (("Int", [(1, "2"), (2, "2"), (3, "2"), (1023, "1k"), (1024, "1k"), (1025, "1k"), (2000, "2kb"), (2048, "2kb")]),
                        ("Float", [(1.0, "2"), (2.0, "2"), (3.0, "2"), (-0.0, "0"), (0.0, "0"), (2.5, "2.5")])):
        for a, lit in pairs:
            for op, f in spec.items():
                left = conf.variant(interp.rust_float_str(a) if kind == "Float" else str(a), kind, int_value=int(a), float_value=float(a))
                try:
                    got, tr = run.run(op, left, conf.variant(lit))
                except interp.Undecided as e:
                    ctx.obligation(False)
                    ctx.violation("numeric/unreadable", ctx.where(sem.CONFORMS), "cannot evaluate conforms for a %s value %s %s: %s" % (kind, op, lit, e))
                    return
                n += 1
                want = f(float(a), UNIT.get(lit) if lit in UNIT else float(lit))
                ok = got is want
                ctx.obligation(ok)
                if not ok:
                    ctx.violation("numeric/%s/%s" % (kind, op), ctx.where(sem.CONFORMS),
                                  "a %s value %r compared with the literal `%s` under %s gives %s, numerically it is %s%s" %
                                  (kind, a, lit, op, got, want, " (negative zero equals zero: `size * -1 = 0` holds for an empty file)" if a == 0 else ""))
    ctx.covered("numeric comparisons of conforms evaluated (Int and Float values x order types, signed zeroes, unit literals x 8 operators)", n, distinct_keys=["Int", "Float"], exhaustive=True)
    ctx.floor(n, 72, "numeric comparison evaluations", sem.CONFORMS)


RULES.append(("C02-R8", "numeric comparisons by evaluation, signed zeroes included", r8))
