"""C14 — size literals and size formatting follow the documented unit tables (static necessary conditions)."""
from hirq import *  # noqa: F401,F403
import oracles
import tables
from core import Abort

PARSE_FILESIZE = "util::parse_filesize"
FORMAT_FILESIZE = "util::format_filesize"


def _product(n):
    """product of the numeric literal leaves of a multiplication tree; other leaves count as 1"""
    n = peel(n, methods=False)
    if n["k"] == "Cast":
        return _product(n["e"])
    if n["k"] == "Bin" and n["op"] == "*":
        return _product(n["l"]) * _product(n["r"])
    if n["k"] == "Lit" and n["lk"] in ("int", "float"):
        return float(n["v"])
    return 1.0


def _top_products(root):
    """multiplication trees (maximal) inside root"""
    out = []

    def rec(n, parent_mul):
        is_mul = n["k"] == "Bin" and n["op"] == "*"
        if is_mul and not parent_mul:
            out.append(n)
        for _, c in children(n):
            rec(c, is_mul)

    rec(root, False)
    return out


def unit_ladder(ctx):
    hir = ctx.anchor_hir(PARSE_FILESIZE)
    locs = Locals(hir)
    rows = []
    for x in walk_exprs(hir):
        if x["k"] != "If":
            continue
        suffix = None
        minlen = None
        recv = None
        for c in conjuncts(x["c"]):
            c = peel(c, methods=False)
            if c["k"] == "MCall" and c["m"] == "ends_with" and c["args"] and peel(c["args"][0])["k"] == "Lit":
                suffix = peel(c["args"][0])["v"]
                recv = c["recv"]
            elif c["k"] == "Bin" and c["op"] in (">", ">=") and peel(c["r"], methods=False)["k"] == "Lit":
                minlen = peel(c["r"], methods=False)["v"] + (1 if c["op"] == ">" else 0)
        if suffix is None:
            continue
        prods = _top_products(x["t"])
        mult = _product(prods[0]) if prods else 1.0
        cut = None
        for y in walk_exprs(x["t"]):
            if y["k"] == "Bin" and y["op"] == "-" and peel(y["r"], methods=False)["k"] == "Lit" and "length" in render(y["l"]):
                cut = peel(y["r"], methods=False)["v"]
        # where does the value become an integer?  (`as u64` must be applied to the scaled value)
        early_cast = False
        parse_float = any(c["k"] == "MCall" and c["m"] == "parse" and "f64" in c.get("ty", "") for c in walk_exprs(x["t"]))
        for y in walk_exprs(x["t"]):
            if y["k"] == "Cast" and y.get("ty") in ("u64", "i64", "usize", "u32", "i32"):
                inner = peel(y["e"], methods=False)
                if not (inner["k"] == "Bin" and inner["op"] == "*"):
                    early_cast = True
        int_mul = any(c["k"] == "MCall" and c["m"] in ("saturating_mul", "wrapping_mul", "checked_mul") for c in walk_exprs(x["t"]))
        rows.append({"suffix": suffix, "mult": mult, "minlen": minlen, "cut": cut, "node": x,
                     "lower": tables.is_lowercased(recv, locs), "early_cast": early_cast or int_mul, "parse_float": parse_float})
    return rows, hir


def _parse_filesize_by_evaluation(ctx):
    """parse_filesize evaluated (finite interpreter) on every documented unit in three letter cases with an integral and a
    fractional number, on plain numbers and on non-sizes.  Returns None when everything agrees, a message when a value
    differs, and raises interp.Undecided when the source cannot be read this way"""
    import interp
    h = ctx.anchor_hir(PARSE_FILESIZE)
    ps = ctx.prog.fns[PARSE_FILESIZE]["params"]

    def run(text):
        v = interp.Interp(prog=ctx.prog, max_steps=40000).run(h, {ps[0]["id"]: text})
        if isinstance(v, interp.V) and v.name == "Option::Some":
            return v.args[0]
        if v == interp.NONE:
            return None
        raise interp.Undecided("parse_filesize(%r) gives %r" % (text, v))
    n = 0
    for unit, mult in oracles.SIZE_UNITS.items():
        for form in (unit, unit.upper(), unit.capitalize()):
            # fractions with leading, inner and trailing zeroes: every digit of the literal counts at its place
            for num in ("3", "1.5", "0", "12", "1.05", "1.0625", "0.0625", "2.50", "10.010"):
                if unit == "b" and "." in num:
                    continue
                if form != unit and num not in ("3", "1.5", "1.05"):
                    continue
                got = run(num + form)
                n += 1
                from decimal import Decimal
                wants = {int(float(num) * mult), int(Decimal(num) * mult)}        # scaled as a real number, then cut to whole bytes
                if got not in wants:
                    return n, "`%s%s` denotes %s bytes, documented %s (unit `%s` = x%d)" % (num, form, got, sorted(wants), unit, mult)
    for text, want in (("5", 5), ("1024", 1024), ("", None), ("k", None), ("x1k", None), ("1x", None), ("b", None)):
        got = run(text)
        n += 1
        if got != want:
            return n, "`%s` denotes %s, expected %s" % (text, got, want)
    return n, None


def r1(ctx):
    import interp
    try:
        n_ev, diff = _parse_filesize_by_evaluation(ctx)
        ctx.obligation(diff is None)
        ctx.covered("parse_filesize evaluated on 13 units x 3 letter cases x integral / fractional numbers, plain numbers, non-sizes", n_ev,
                    distinct_keys=list(oracles.SIZE_UNITS), exhaustive=True)
        if diff is not None:
            ctx.violation("unit/value", ctx.where(PARSE_FILESIZE), "a size literal must denote number x unit: %s" % diff)
        if diff is None:
            return
    except interp.Undecided as e:
        # read the ladder structurally instead - unless the function has gained a route the ladder rule cannot see (a helper
        # consulted before / beside the ladder, inlined here by the normaliser): then the value it computes is unknown
        if any(x["k"] == "Block" and x.get("inl") for x in walk_exprs(ctx.anchor_hir(PARSE_FILESIZE))):
            ctx.obligation(False)
            ctx.violation("unit/unreadable", ctx.where(PARSE_FILESIZE), "cannot evaluate parse_filesize, which now computes sizes through a helper beside its unit ladder: %s" % e)
            return
    rows, hir = unit_ladder(ctx)
    got = {r["suffix"]: r for r in rows}
    ctx.floor(len(rows), 10, "unit tests (ends_with ladder) in parse_filesize", PARSE_FILESIZE)
    for unit, mult in oracles.SIZE_UNITS.items():
        r = got.get(unit)
        ok = r is not None and abs(r["mult"] - mult) < 0.5
        ctx.obligation(ok)
        if r is None:
            ctx.violation("unit/missing/%s" % unit, ctx.where(PARSE_FILESIZE),
                          "documented size unit `%s` (x%d) has no branch in parse_filesize: a literal like `1%s` "
                          "does not denote %d bytes" % (unit, mult, unit, mult))
        elif not ok:
            ctx.violation("unit/multiplier/%s" % unit, ctx.where(PARSE_FILESIZE, r["node"]),
                          "size unit `%s` multiplies by %s, documented multiplier is %d" % (unit, r["mult"], mult))
    for r in rows:
        k = len(r["suffix"])
        ok = r["cut"] == k and (r["minlen"] is not None and r["minlen"] > k) and r["lower"]
        ctx.obligation(ok)
        if r["cut"] != k:
            ctx.violation("unit/cut/%s" % r["suffix"], ctx.where(PARSE_FILESIZE, r["node"]),
                          "suffix `%s` has %d characters but %s are cut from the number" % (r["suffix"], k, r["cut"]))
        if r["minlen"] is None or r["minlen"] <= k:
            ctx.violation("unit/guard/%s" % r["suffix"], ctx.where(PARSE_FILESIZE, r["node"]),
                          "no length guard strictly greater than the suffix length before slicing off `%s`" % r["suffix"])
        if not r["lower"]:
            ctx.violation("unit/case/%s" % r["suffix"], ctx.where(PARSE_FILESIZE, r["node"]),
                          "unit `%s` is tested on a string that was not lower-cased" % r["suffix"])
        if r["suffix"] != "b":
            okf = r["parse_float"] and not r["early_cast"]
            ctx.obligation(okf)
            if not okf:
                ctx.violation("unit/fraction/%s" % r["suffix"], ctx.where(PARSE_FILESIZE, r["node"]),
                              "a fractional number with unit `%s` must be scaled as a real number and only then converted to bytes; "
                              "here the number is %s" % (r["suffix"], "converted to an integer before it is multiplied" if r["early_cast"] else "not parsed as f64"))
    # no unit: plain integer parse of the whole string
    tail = hir.get("expr")
    ok = tail is not None and "parse" in render(tail)
    ctx.obligation(ok)
    if not ok:
        ctx.violation("unit/none", ctx.where(PARSE_FILESIZE), "a literal without unit is not parsed as a plain number")
    ctx.covered("size-unit branches of parse_filesize (suffix, multiplier, cut, guard, case folding)", len(rows),
                distinct_keys=[r["suffix"] for r in rows],
                sample={r["suffix"]: r["mult"] for r in rows}, exhaustive=True)


def r2(ctx):
    rows, hir = unit_ladder(ctx)
    order = [r["suffix"] for r in rows]
    n = 0
    for i, s in enumerate(order):
        for j, s2 in enumerate(order):
            if s != s2 and s2.endswith(s):
                n += 1
                ok = j < i
                ctx.obligation(ok)
                if not ok:
                    ctx.violation("ladder-order/%s-before-%s" % (s, s2), ctx.where(PARSE_FILESIZE, rows[i]["node"]),
                                  "the test for `%s` precedes the test for `%s`, whose literals it also matches" % (s, s2))
    ctx.covered("suffix-of pairs in the unit ladder, longer suffix tested first", n, distinct_keys=order)


def r3(ctx):
    """a literal that is not a plain number is read as a size: Variant::to_int / to_float evaluated (finite interpreter) on the
    texts "42", "2k" and "abc" with parse_filesize mocked by its contract"""
    import extra
    tbl = extra.variant_coercion_table(ctx)
    for fn in ("to_int", "to_float"):
        res = {s["string_value"]: got for s, want, got in tbl[fn] if s["int_value"] == extra.interp_none() and s["float_value"] == extra.interp_none()}
        plain = res.get("42") if fn == "to_int" else res.get("2.5")
        ok = res.get("2k") in (2000, 2000.0) and plain in (42, 2.5) and res.get("abc") in (0, 0.0) and not isinstance(res.get("2k"), str)
        ctx.obligation(ok)
        ctx.covered("literal coercion Variant::%s on plain number / size literal / garbage" % fn, 3, distinct_keys=[fn])
        if not ok:
            ctx.violation("coercion/%s" % fn, ctx.where("function::Variant::" + fn),
                          "Variant::%s does not fall back to parse_filesize for literals that are not plain numbers: "
                          "`size > 2k` would compare with %r (texts -> values: %s)" % (fn, res.get("2k"), res))


FORMAT_UNITS = {
    "b": ("Base", "BINARY"), "byte": ("Base", "BINARY"),
    "k": ("Kilo", "BINARY"), "kib": ("Kilo", "BINARY"), "kb": ("Kilo", "DECIMAL"),
    "m": ("Mega", "BINARY"), "mib": ("Mega", "BINARY"), "mb": ("Mega", "DECIMAL"),
    "g": ("Giga", "BINARY"), "gib": ("Giga", "BINARY"), "gb": ("Giga", "DECIMAL"),
    "t": ("Tera", "BINARY"), "tib": ("Tera", "BINARY"), "tb": ("Tera", "DECIMAL"),
    "": (None, "BINARY"),
}


def _format_filesize_run(ctx, modifier, unit_text="1.5 kB"):
    """(options handed to humansize, returned text) of format_filesize for one modifier without precision part, read by the
    finite interpreter; the precision regex is answered with `no match`"""
    import interp
    hir = ctx.anchor_hir(FORMAT_FILESIZE)
    ps = ctx.prog.fns[FORMAT_FILESIZE]["params"]
    seen = {}

    def call(node, recv, args, it, env):
        callee = str(node.get("callee", ""))
        m = node.get("m")
        if m == "captures":
            return (interp.NONE,)
        if "FormatSizeOptions" in callee and callee.endswith("::from") and args:
            return ({"__opts": True, "format": getattr(args[0], "what", str(args[0])).split("::")[-1]},)
        if isinstance(recv, dict) and recv.get("__opts") and m in ("fixed_at", "decimal_places", "space_after_value", "suffix", "long_units") and args:
            d = dict(recv)
            v = args[0]
            if isinstance(v, interp.V):
                v = None if v == interp.NONE else (v.args[0].name.split("::")[-1] if v.args and isinstance(v.args[0], interp.V) else str(v))
            d[m] = v
            return (d,)
        if callee.endswith("format_size") and len(args) == 2 and isinstance(args[1], dict):
            seen.update(args[1])
            return (unit_text,)
        if callee.endswith("error_exit"):
            raise interp._Return("error_exit")
        return None
    env = {ps[0]["id"]: 1536, ps[1]["id"]: modifier}
    res = interp.Interp(call=call, prog=ctx.prog, max_steps=40000).run(hir, env)
    return seen, res


def r4(ctx):
    """format_filesize: unit -> (fixed unit, base), flag letters c / d / s, unknown unit -> status 2; the function is evaluated
    (finite interpreter) for every documented unit x every subset of the flag letters"""
    import interp
    import itertools
    n = 0
    first_bad = {}
    for unit, (fx, fm) in FORMAT_UNITS.items():
        for flags in itertools.chain.from_iterable(itertools.combinations("cds", k) for k in range(4)):
            mod = "".join(flags) + unit
            try:
                opts, res = _format_filesize_run(ctx, mod)
            except interp.Undecided as e:
                ctx.violation("format-unit/unreadable", ctx.where(FORMAT_FILESIZE), "cannot evaluate format_filesize for the modifier `%s`: %s" % (mod, e))
                return
            n += 1
            want_fmt = "DECIMAL" if "d" in flags else ("WINDOWS" if "c" in flags else fm)
            got = (opts.get("fixed_at"), opts.get("format"))
            ok = got == (fx, want_fmt) and isinstance(res, str) and (("kB" not in res and "KB" not in res) if "s" in flags else ("KB" in res))
            ctx.obligation(ok)
            if not ok:
                if got[0] != fx or (not flags and got[1] != fm):
                    first_bad.setdefault("format-unit/%s" % (unit or "none"), "format specifier unit `%s` selects %s, documented (%s, %s)" % (unit, got, fx, fm))
                for fl, var in (("c", "conventional"), ("d", "decimal"), ("s", "short_units")):
                    if fl in flags and got[0] == fx:
                        bad_fl = (fl == "d" and got[1] != "DECIMAL") or (fl == "c" and "d" not in flags and got[1] != "WINDOWS") or \
                            (fl == "s" and isinstance(res, str) and ("kB" in res or "KB" in res))
                        if bad_fl:
                            first_bad.setdefault("format-flag/%s" % fl, "flag letter `%s` has no effect (`%s`) for the modifier `%s`: options %s, text %r" % (fl, var, mod, got, res))
    for k, msg in first_bad.items():
        ctx.violation(k, ctx.where(FORMAT_FILESIZE), msg)
    try:
        _o, res = _format_filesize_run(ctx, "zz")
    except interp.Undecided:
        res = None
    ok = res == "error_exit"
    n += 1
    ctx.obligation(ok)
    if not ok:
        ctx.violation("format-unit/unknown", ctx.where(FORMAT_FILESIZE), "an unknown size modifier does not end in error_exit (status 2)")
    ctx.covered("format_filesize evaluated on %d documented units x 8 flag subsets + an unknown unit" % len(FORMAT_UNITS), n,
                distinct_keys=list(FORMAT_UNITS) + ["c", "d", "s"], exhaustive=True)


HUMANSIZE_UNITS = ["B", "kB", "MB", "GB", "TB", "PB", "EB", "KiB", "MiB", "GiB", "TiB", "PiB", "EiB"]   # humansize 2.1.3 scales.rs, up to u64::MAX


def r5(ctx):
    """the unit text after format_filesize's rewriting: `kB` is shown as `KB`; with the short-unit flag `s` every unit is
    its first letter (K, M, G, ...) whatever the base.  The rewriting statements are evaluated, in source order, on every
    unit string humansize can produce."""
    import interp
    hir = ctx.anchor_hir(FORMAT_FILESIZE)
    top = hir["stmts"] + ([hir["expr"]] if "expr" in hir else [])
    idx = [i for i, st in enumerate(top) if any(c["k"] == "Call" and str(c.get("callee", "")).endswith("humansize::format_size") or
                                                 (c["k"] == "Call" and "format_size" in render(c["f"])) for c in walk_exprs(st))]
    if len(idx) != 1:
        ctx.violation("anchor/format-call", ctx.where(FORMAT_FILESIZE), "the humansize::format_size call of format_filesize was not found exactly once")
        raise Abort()
    tail = top[idx[0]:]
    defined = set()
    for st in tail:
        for x in walk(st):
            if x["k"] == "Bind":
                defined.add(x["id"])
    free = {}
    for st in tail:
        for x in walk_exprs(st):
            if x["k"] == "Path" and x.get("rk") == "Local" and x["res"] not in defined:
                free[x["res"]] = x["name"]
    n = 0
    for short_flag in (False, True):
        for unit in HUMANSIZE_UNITS:
            def call(node, recv, args, it, env, unit=unit):
                if node["k"] == "Call" and "format_size" in render(node["f"]):
                    return ("1.5 " + unit,)
                if node["k"] == "MCall" and node["m"] == "replace" and isinstance(recv, str) and all(isinstance(a, str) for a in args):
                    return (recv.replace(args[0], args[1]),)
                return None
            env = {i: (short_flag if nm == "short_units" else interp.Opaque(nm)) for i, nm in free.items()}
            it = interp.Interp(call=call, prog=ctx.prog)
            try:
                res = None
                try:
                    for st in tail:
                        res = it.ev(st, env) if st.get("k") not in ("Let",) else it.stmt(st, env)
                except interp._Return as r_:
                    res = r_.v          # an early `return` among the rewriting statements ends the function
            except interp.Undecided as e:
                ctx.violation("format-suffix/undecided", ctx.where(FORMAT_FILESIZE), "cannot evaluate the unit rewriting of format_filesize: %s" % e)
                return
            want = "1.5 " + (unit[0].upper() if short_flag and unit != "B" else "KB" if unit == "kB" else unit)
            n += 1
            ok = res == want
            ctx.obligation(ok)
            if not ok:
                ctx.violation("format-suffix/%s/%s" % ("short" if short_flag else "long", unit), ctx.where(FORMAT_FILESIZE, tail[0]),
                              "a size that humansize renders as `1.5 %s` is shown as `%s`%s, expected `%s`" %
                              (unit, res, " with the short-unit flag `s`" if short_flag else "", want))
    ctx.covered("unit rewriting of format_filesize evaluated on every humansize unit, with and without the short-unit flag", n,
                distinct_keys=HUMANSIZE_UNITS, exhaustive=True)

RULES = [
    ("C14-R1", "parse_filesize unit table equals the documented multipliers", r1),
    ("C14-R2", "ladder order: longer suffix is tested before its proper suffixes", r2),
    ("C14-R3", "numeric literal coercion falls back to parse_filesize", r3),
    ("C14-R4", "format_filesize unit / flag tables", r4),
    ("C14-R5", "format_filesize unit rewriting (kB -> KB, short units) on every humansize unit", r5),
    ("C02-R1", "`size OP literal` is the numeric comparison [shared with C02]", lambda ctx: __import__("c02").r1(ctx)),
    ("C14-R6", "FORMAT_SIZE hands its specifier to format_filesize unchanged", lambda ctx: __import__("extra2").format_size_arguments_unchanged(ctx)),
    ("X-LITVALUE", "a literal evaluates to the text written in the query (patterns, size literals, arguments) [shared]", lambda ctx: __import__("extra2").literal_is_its_text(ctx)),
    ("X-LEXEMS", "every lexem but an empty quoted string reaches the grammar (a blank string is a value) [shared]", lambda ctx: __import__("extra2").lexems_are_kept(ctx)),
    ("X-OPERANDS", "each operand of a comparison is evaluated afresh (no memo shared between operands or conditions: a remembered value comes back as text) [shared]", lambda ctx: __import__("conf").operands_evaluated_afresh(ctx)),
    ("X-REEVAL", "an expression evaluated twice for one entry has the same typed value both times (no text-valued memo beside the map handed in) [shared]", lambda ctx: __import__("gcev").reevaluation_is_stable(ctx)),
    ("X-CONFIG", "a setting read from both configurations is the user's value when present, the built-in default otherwise [shared]", lambda ctx: __import__("extra2").user_config_wins(ctx)),
    ("C02-R8", "numeric comparisons by evaluation: a literal with a size unit denotes its byte count under every operator, the strict ones included [shared with C02]", lambda ctx: __import__("c02").r8(ctx)),
]

EXPLANATION = (
    "Static structural necessary conditions of C14: the ends_with ladder of parse_filesize is recovered from the HIR "
    "as a table suffix -> (multiplier product, characters cut, length guard, case folding) and compared with the "
    "documented unit table (k/kib/kb ... t/tib/tb, b); ladder order is checked for every suffix-of pair; "
    "Variant::to_int/to_float fall back to parse_filesize; format_filesize's unit arms map to the documented "
    "humansize FixedAt/base pair, unknown modifiers end in error_exit, and the flag letters c/d/s set their flags. "
    "humansize's rendering, monotonicity and round trip are produced by a third-party crate and are not decided."
    ' The unit-rewriting statements of format_filesize are evaluated on every unit humansize can emit, with and without the short-unit flag.')
ASSUMPTIONS = ["rustc's HIR faithfully represents the source; exporter and rule scripts are correct",
               "f64 products of the literal multipliers are exact for these magnitudes"]
NOT_DECIDED = ["humansize's rendering, monotonicity in the size, round trip of rendered text",
               "float -> u64 truncation of fractional literals",
               "the FILE_SIZE_FORMAT_REGEX grammar on arbitrary specifier strings"]
