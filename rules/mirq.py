"""Queries over the exported MIR bodies: CFG, dominators, call sites, places, field read/write sets."""


def place_str(p):
    return "_%d%s" % (p["l"], "".join(x if x.startswith((".", "[", "@")) else "." + x for x in p["pr"]))


def op_place(o):
    return o.get("p") if isinstance(o, dict) else None


def op_const(o):
    return o.get("c") if isinstance(o, dict) else None


def const_val(o):
    c = op_const(o)
    if c is None:
        return None
    for k in ("int", "str", "bool", "char", "float"):
        if k in c:
            return c[k]
    return None


def render_op(o):
    if o is None:
        return "?"
    if "p" in o:
        return place_str(o["p"])
    c = o.get("c")
    if c is not None:
        for k in ("int", "str", "bool", "char", "float", "fn", "named", "d"):
            if k in c:
                return "const %r" % (c[k],)
        return "const ?"
    return str(o.get("d", "?"))


class Body:
    def __init__(self, name, fn):
        self.name = name
        self.fn = fn
        m = fn["mir"]
        self.mir = m
        self.blocks = m["blocks"]
        self.locals = m["locals"]
        self.n = len(self.blocks)
        self.succ = [self._succ(b["term"]) for b in self.blocks]
        self.pred = [[] for _ in range(self.n)]
        for i, ss in enumerate(self.succ):
            for s in ss:
                self.pred[s].append(i)
        self._dom = None
        self._reach = None

    @staticmethod
    def _succ(t):
        k = t["k"]
        if k == "Goto":
            return [t["t"]]
        if k == "Sw":
            out = []
            for _, bb in t["vals"]:
                if bb not in out:
                    out.append(bb)
            if t["else"] not in out:
                out.append(t["else"])
            return out
        if k in ("Call", "Drop", "Assert"):
            return [t["t"]] if "t" in t else []
        if k == "Other":
            return list(t.get("succ", []))
        return []

    def local_name(self, l):
        return self.locals[l].get("name")

    def local_ty(self, l):
        return self.locals[l]["ty"]

    # -------------------------------------------------------------- reachability / dominators
    def reachable(self, start=0, avoid=()):
        seen = set()
        stack = [start]
        avoid = set(avoid)
        while stack:
            b = stack.pop()
            if b in seen or b in avoid:
                continue
            seen.add(b)
            stack.extend(self.succ[b])
        return seen

    def dominators(self):
        if self._dom is not None:
            return self._dom
        reach = self.reachable()
        order = []
        seen = set()

        def dfs(b):
            stack = [(b, iter(self.succ[b]))]
            seen.add(b)
            while stack:
                node, it = stack[-1]
                for s in it:
                    if s not in seen:
                        seen.add(s)
                        stack.append((s, iter(self.succ[s])))
                        break
                else:
                    order.append(node)
                    stack.pop()

        dfs(0)
        rpo = list(reversed(order))
        idx = {b: i for i, b in enumerate(rpo)}
        idom = {0: 0}
        changed = True
        while changed:
            changed = False
            for b in rpo[1:]:
                preds = [p for p in self.pred[b] if p in idom]
                if not preds:
                    continue
                new = preds[0]
                for p in preds[1:]:
                    a, c = p, new
                    while a != c:
                        while idx[a] > idx[c]:
                            a = idom[a]
                        while idx[c] > idx[a]:
                            c = idom[c]
                    new = a
                if idom.get(b) != new:
                    idom[b] = new
                    changed = True
        dom = {}
        for b in reach:
            s = {b}
            x = b
            while x != 0 and x in idom:
                x = idom[x]
                s.add(x)
            s.add(0)
            dom[b] = s
        self._dom = dom
        return dom

    def dominates(self, a, b):
        d = self.dominators()
        return b in d and a in d[b]

    def paths_avoiding(self, src, dst, avoid):
        """is dst reachable from src without passing through any block in `avoid`?"""
        return dst in self.reachable(src, avoid=set(avoid) - {src})

    # -------------------------------------------------------------- call sites
    def calls(self):
        for i, b in enumerate(self.blocks):
            t = b["term"]
            if t["k"] == "Call":
                yield i, t

    def callee(self, t):
        return t.get("inst") or t.get("f") or ""

    def calls_to(self, *suffixes):
        out = []
        for i, t in self.calls():
            c1, c2 = t.get("inst", ""), t.get("f", "")
            for s in suffixes:
                if c1 == s or c2 == s or c1.endswith("::" + s) or c2.endswith("::" + s):
                    out.append((i, t))
                    break
        return out

    def asserts(self):
        for i, b in enumerate(self.blocks):
            t = b["term"]
            if t["k"] == "Assert":
                yield i, t

    # -------------------------------------------------------------- def-use
    def assigns(self):
        """(bb, idx, place, rvalue) of all assignments, calls included (rvalue = the call terminator)"""
        for i, b in enumerate(self.blocks):
            for j, s in enumerate(b["stmts"]):
                if s["k"] == "A":
                    yield i, j, s["p"], s["rv"]
            t = b["term"]
            if t["k"] == "Call":
                yield i, len(b["stmts"]), t["dest"], t

    def defs_of(self, local):
        return [(i, j, p, rv) for i, j, p, rv in self.assigns() if p["l"] == local and not p["pr"]]

    def trace(self, o, depth=8):
        """follow copies/moves/refs/casts of a bare local back to its unique definition; returns the
        defining rvalue/terminator or the operand itself"""
        while depth > 0:
            p = op_place(o)
            if p is None:
                return o
            if p["pr"] and p["pr"] != ["*"]:
                return o
            ds = self.defs_of(p["l"])
            if len(ds) != 1:
                return o
            rv = ds[0][3]
            k = rv.get("k")
            if k == "Use":
                o = rv["o"]
            elif k == "Ref":
                o = {"p": rv["p"]}
            elif k == "Cast":
                o = rv["o"]
            else:
                return rv
            depth -= 1
        return o

    # -------------------------------------------------------------- field read/write sets
    def field_writes(self):
        """set of field-name chains written (assignment destinations)"""
        out = set()
        for _, _, p, _ in self.assigns():
            fs = tuple(x for x in p["pr"] if x.startswith("."))
            if fs:
                out.add(fs)
        return out

    def places_read(self):
        out = []

        def op(o):
            if isinstance(o, dict) and "p" in o:
                out.append(o["p"])

        for b in self.blocks:
            for s in b["stmts"]:
                if s["k"] != "A":
                    continue
                rv = s["rv"]
                for key in ("o", "a", "b"):
                    if key in rv:
                        op(rv[key])
                if "p" in rv:
                    out.append(rv["p"])
                for o in rv.get("ops", []):
                    op(o)
            t = b["term"]
            if t["k"] == "Call":
                for a in t["args"]:
                    op(a)
            elif t["k"] == "Sw":
                op(t["o"])
        return out

    def field_reads(self):
        out = set()
        for p in self.places_read():
            for x in p["pr"]:
                if x.startswith("."):
                    out.add(x[1:])
        return out


class Program:
    def __init__(self, facts):
        self.facts = facts
        self.fns = facts["fns"]
        self.adts = facts["adts"]
        self.consts = facts["consts"]
        self._bodies = {}
        self._hir = {}
        self._norm = None
        import norm
        self.renames = norm.resolve_renames(self)       # old name -> new name of renamed pinned-tree functions
        self.renamed_to = set(self.renames.values())
        if self.renames:
            # read the whole program under the old names: callee / instance fields of every body refer to the new one
            import json as _json
            txt = _json.dumps(facts)
            for old_, new_ in self.renames.items():
                txt = txt.replace(_json.dumps(new_), _json.dumps(old_)).replace(_json.dumps(new_)[:-1] + "::{", _json.dumps(old_)[:-1] + "::{")
            facts = _json.loads(txt)
            self.facts = facts
            self.fns = facts["fns"]
            self.adts = facts["adts"]
            self.consts = facts["consts"]
            norm.resolve_renames(self)
            self.renamed_to = set()
            olds = set(self.renames)
            import hirq as _hq
            for f_ in self.fns.values():
                if "hir" in f_:
                    for x in _hq.walk(f_["hir"]):
                        if x.get("k") == "MCall" and x.get("callee") in olds:
                            x["m"] = x["callee"].rsplit("::", 1)[-1]

    def has(self, name):
        return name in self.fns

    def fn(self, name):
        return self.fns.get(name)

    def hir(self, name):
        """normalised HIR (rules/norm.py): new helper functions inlined, match-on-bool read as if, tuple lets split"""
        if name not in self._hir:
            if self._norm is None:
                import norm
                self._norm = norm.Normaliser(self)
            self._hir[name] = self._norm.run(name)
        return self._hir[name]

    def raw_hir(self, name):
        f = self.fns.get(name)
        return f.get("hir") if f else None

    def body(self, name):
        if name not in self._bodies:
            f = self.fns.get(name)
            if not f or "mir" not in f:
                return None
            self._bodies[name] = Body(name, f)
        return self._bodies[name]

    def bodies(self):
        for name, f in self.fns.items():
            if "mir" in f:
                yield self.body(name)

    def closures_of(self, name):
        pre = name + "::{closure#"
        return [n for n in self.fns if n.startswith(pre)]

    def with_closures(self, name):
        return [name] + self.closures_of(name)

    def local_callees(self, name):
        out = set()
        for n in self.with_closures(name):
            b = self.body(n)
            if not b:
                continue
            for _, t in b.calls():
                for c in (t.get("inst"), t.get("f")):
                    if c and c in self.fns:
                        out.add(c)
        return out

    def owners(self, name, _seen=None):
        """the pinned-tree functions a function belongs to: itself if it existed on the pinned tree (rules/known_fns.json),
        otherwise (a helper introduced later) the owners of its callers - so that who-may-write / who-may-call rules treat an
        extracted helper as part of the function it was extracted from"""
        import norm
        known = norm.known_fns()
        base = name.split("::{closure")[0]
        for old_, new_ in getattr(self, "renames", {}).items():
            if base == new_:
                base = old_
        if known is None or base in known:
            return {base}
        _seen = _seen or set()
        if base in _seen:
            return set()
        _seen.add(base)
        if not hasattr(self, "_callers"):
            self._callers = {}
            for n in self.fns:
                b = self.body(n)
                if not b:
                    continue
                for _, t in b.calls():
                    for c in (t.get("inst"), t.get("f")):
                        if c and c in self.fns:
                            self._callers.setdefault(c, set()).add(n)
        out = set()
        for c in self._callers.get(base, ()):
            out |= self.owners(c, _seen)
        return out or {base}

    def reachable_fns(self, roots, extra_edges=None):
        seen = set()
        stack = list(roots)
        while stack:
            n = stack.pop()
            if n in seen or n not in self.fns:
                continue
            seen.add(n)
            for c in self.closures_of(n):
                stack.append(c)
            stack.extend(self.local_callees(n))
            if extra_edges and n in extra_edges:
                stack.extend(extra_edges[n])
        return seen

    def span(self, name):
        f = self.fns.get(name)
        return f["span"] if f else "?"

    def adt_variants(self, name):
        a = self.adts.get(name)
        if not a:
            return None
        return [v["name"] for v in a["variants"]]

    def struct_fields(self, name):
        a = self.adts.get(name)
        if not a or a["kind"] != "struct":
            return None
        return [f["name"] for f in a["variants"][0]["fields"]]
