"""Scenario evaluation of Searcher::get_column_expr_value (the expression evaluator: literal, memo, function, column,
arithmetic) by the finite interpreter, with the column reader, the function dispatcher and the arithmetic replaced by
tagged stand-ins.  Decides the wiring on a finite table: node kind x leading minus x memo hit / miss x entry present."""
import interp
from extra import _expr_dict

GCEV = "searcher::Searcher::get_column_expr_value"


def variant_int(v):
    some, NONE = interp.some, interp.NONE
    return {"value_type": interp.V("VariantType::Int"), "empty": False, "string_value": str(v), "int_value": some(v), "float_value": some(float(v)),
            "bool_value": NONE, "dt_from": NONE, "dt_to": NONE}


def variant_float(v):
    d = variant_int(v)
    d["value_type"] = interp.V("VariantType::Float")
    return d


class Run:
    def __init__(self, ctx):
        import norm
        self.ctx = ctx
        self.hir = ctx.anchor_hir(GCEV)
        self.ps = ctx.prog.fns[GCEV]["params"]
        tys = norm.param_types(ctx.prog.fns[GCEV].get("sig"))
        self.by_ty = list(zip(self.ps, tys))

    def run(self, kind, minus=False, memo=None, entry=True, selfv=None):
        """kind: "field" | "function" | "val" | "arith".  -> (returned Variant, events, memo map after)"""
        ev = []
        some, NONE = interp.some, interp.NONE
        E = lambda **kw: _expr_dict(interp, **kw)
        if kind == "field":
            ex = E(field=some(interp.V("Field::Size")), minus=minus)
            text = "size"
        elif kind == "function":
            ex = E(function=some(interp.V("Function::Length")), left=some(E(field=some(interp.V("Field::Name")), __side="ARG")), minus=minus)
            text = "length(name)"
        elif kind == "val":
            ex = E(val=some("5"), minus=minus)
            text = "5"
        else:
            ex = E(left=some(E(__side="L")), arithmetic_op=some(interp.V("ArithmeticOp::Add")), right=some(E(__side="R")), minus=minus)
            text = "(l + r)"
        ex["__text"] = ("-" if minus else "") + text
        fmap = interp.HMap(memo or {})

        def call(node, recv, args, it, env):
            callee = str(node.get("callee", ""))
            m = node.get("m")
            if m == "to_string" and isinstance(recv, dict) and "__text" in recv:
                return (recv["__text"],)
            if m == "to_string" and isinstance(recv, interp.V) and recv.name.startswith("Field::"):
                return (recv.name.split("::")[-1].lower(),)
            if m == "get_field_value" or callee.endswith("::get_field_value"):
                ev.append(("column",))
                return (variant_int(5),)
            if m == "get_function_value" or callee.endswith("::get_function_value"):
                ev.append(("function",))
                return (variant_int(7),)
            if (m == "get_column_expr_value" or callee.endswith("::get_column_expr_value")):
                sub = [a for a in args if isinstance(a, dict) and "__side" in a]
                if len(sub) == 1:
                    ev.append(("operand", sub[0]["__side"]))
                    return (variant_int(3 if sub[0]["__side"] == "L" else 4),)
            if m == "calc":
                vs = [a for a in args if isinstance(a, dict) and "string_value" in a]
                ev.append(("calc",) + tuple(v["string_value"] for v in vs))
                return (variant_float(34),)      # ArithmeticOp::calc yields a float
            return None
        env = {}
        for p, t in self.by_ty:
            nm = p.get("name") or ""
            if t.endswith("expr::Expr"):
                env[p["id"]] = ex
            elif "HashMap<" in t and "Vec<" not in t and "Option<" not in t:
                env[p["id"]] = fmap
            elif "DirEntry" in t:
                env[p["id"]] = some(interp.Opaque("entry")) if entry else NONE
            elif "Vec<" in t:
                env[p["id"]] = NONE
            elif "Searcher" in t:
                env[p["id"]] = selfv if selfv is not None else interp.LazySelf({"__searcher": True})
            else:
                env[p["id"]] = interp.Opaque(nm or "?")
        got = interp.Interp(call=call, prog=self.ctx.prog, max_steps=40000).run(self.hir, env)
        return got, ev, fmap, ex["__text"]


def text_of(ctx, v):
    if isinstance(v, dict) and "string_value" in v:
        return v["string_value"]
    return None


GFUNV = "searcher::Searcher::get_function_value"


class FunRun:
    """Searcher::get_function_value on a function node F(ARG, A1, A2): the expression evaluator answers with tagged values
    (and stores them in the row's map under the expression's text, as the real one does), function::get_value and
    function::get_aggregate_value record what they are handed"""

    def __init__(self, ctx):
        import norm
        self.ctx = ctx
        self.hir = ctx.anchor_hir(GFUNV)
        self.ps = ctx.prog.fns[GFUNV]["params"]
        self.by_ty = list(zip(self.ps, norm.param_types(ctx.prog.fns[GFUNV].get("sig"))))

    def run(self, aggregate=False, partition=None, extra=("A1", "A2")):
        ev = []
        some, NONE = interp.some, interp.NONE
        E = lambda **kw: _expr_dict(interp, **kw)
        arg = E(__side="ARG", __text="<ARG>")
        ex = E(function=some(interp.V("Function::Min" if aggregate else "Function::Concat")), left=some(arg),
               args=some([E(__side=t, __text="<%s>" % t) for t in extra]) if extra else NONE, __text="f(<ARG>)")
        fmap = interp.HMap()
        whole = [interp.HMap({"<ARG>": "1"})]

        def call(node, recv, args, it, env):
            callee = str(node.get("callee", ""))
            m = node.get("m")
            if m == "to_string" and isinstance(recv, dict) and "__text" in recv:
                return (recv["__text"],)
            if m == "to_string" and isinstance(recv, dict) and "__variant" in recv:
                return (recv["__variant"],)
            if m == "get_column_expr_value" or callee.endswith("::get_column_expr_value"):
                sub = [a for a in args if isinstance(a, dict) and "__side" in a]
                maps = [a for a in args if isinstance(a, interp.HMap)]
                if len(sub) == 1:
                    parts = [a.args[0] for a in args if isinstance(a, interp.V) and a.name == "Option::Some" and isinstance(a.args[0], list)]
                    ev.append(("eval", sub[0]["__side"], bool(maps and maps[0] is fmap)))
                    ev.append(("scope", sub[0]["__side"], "partition" if (parts and partition is not None and parts[0] is partition) else ("none" if not parts else "other")))
                    if maps and maps[0] is fmap:
                        dict.__setitem__(fmap, sub[0]["__text"], "val:" + sub[0]["__side"])
                    return ({"__variant": "val:" + sub[0]["__side"]},)
            if callee.endswith("function::get_value"):
                ev.append(("get_value",) + tuple(a if isinstance(a, (str, list)) else (a.args[0].name if isinstance(a, interp.V) and a.args and isinstance(a.args[0], interp.V) else "?") for a in args[:3]))
                return ({"__variant": "result"},)
            if callee.endswith("function::get_aggregate_value"):
                buf = args[1] if len(args) > 1 else None
                ev.append(("aggregate", "partition" if buf is partition and partition is not None else ("whole" if buf is whole else "?"), args[2] if len(args) > 2 else None))
                return ("agg",)
            if callee.endswith("Variant::from_string") and args and isinstance(args[0], str):
                return ({"__variant": args[0]},)
            return None
        env = {}
        for p, t in self.by_ty:
            if t.endswith("expr::Expr"):
                env[p["id"]] = ex
            elif "HashMap<" in t and "Vec<" not in t and "Option<" not in t:
                env[p["id"]] = fmap
            elif "DirEntry" in t:
                env[p["id"]] = some(interp.Opaque("entry"))
            elif "Vec<" in t:
                env[p["id"]] = some(partition) if partition is not None else NONE
            elif "Searcher" in t:
                env[p["id"]] = interp.LazySelf({"raw_output_buffer": whole})
            else:
                env[p["id"]] = interp.Opaque(p.get("name") or "?")
        got = interp.Interp(call=call, prog=self.ctx.prog, max_steps=40000).run(self.hir, env)
        return got, ev, fmap



def nested_scope(ctx):
    """C08-R4: inside a group, the arguments of a function are evaluated over that group's rows: get_function_value hands the
    partition it was given to the evaluation of its first argument and of every further argument (format_size(sum(size)),
    concat(count(*), ' files')), for scalar and aggregate functions alike"""
    run = FunRun(ctx)
    part = [interp.HMap({"<ARG>": "2"})]
    n = 0
    for aggregate in (False, True):
        try:
            got, ev, memo = run.run(aggregate=aggregate, partition=part, extra=("A1",) if not aggregate else ())
        except interp.Undecided as e:
            ctx.obligation(False)
            ctx.violation("groups/nested-scope/unreadable", ctx.where(GFUNV), "cannot evaluate get_function_value inside a group: %s" % e)
            return
        scopes = [e for e in ev if e[0] == "scope"]
        for sc in scopes:
            n += 1
            ok = sc[2] == "partition"
            ctx.obligation(ok)
            if not ok:
                ctx.violation("groups/nested-scope/%s" % ("aggregate" if aggregate else "scalar"), ctx.where(GFUNV),
                              "inside a group the argument `%s` of %s function is evaluated over %s instead of the group's rows: an aggregate nested in a "
                              "function (format_size(sum(size))) then shows the total of the whole result in every group" %
                              (sc[1], "an aggregate" if aggregate else "a scalar", "the whole buffer (buffer_data = None)" if sc[2] == "none" else "other rows"))
    ctx.covered("argument evaluations of get_function_value inside a group (partition handed on)", n, distinct_keys=["scalar", "aggregate"], exhaustive=True)
    ctx.floor(n, 3, "argument evaluations inside a group", GFUNV)


def reevaluation_is_stable(ctx):
    """X-REEVAL: an expression evaluated twice for the same entry, each time with a map of its own (as the conditions of a
    WHERE clause do), has the same *typed* value both times: the verdict of `A and B` must not depend on which atoms were
    evaluated before.  get_column_expr_value is evaluated twice in a row on one Searcher state per node kind x minus; a memo
    outside the map it is handed (a per-entry cache on the Searcher) that answers with a text, or with a stale value, shows
    as a second result of another kind"""
    run = Run(ctx)
    n = 0
    for kind in ("function", "field", "arith", "val"):
        for minus in (False, True):
            selfv = interp.LazySelf({"__searcher": True})
            try:
                a, ev1, _, text = run.run(kind, minus, selfv=selfv)
                b, ev2, _, _ = run.run(kind, minus, selfv=selfv)
            except interp.Undecided as e:
                ctx.obligation(False)
                ctx.violation("reeval/unreadable/%s" % kind, ctx.where(GCEV), "cannot evaluate get_column_expr_value twice on a `%s` node: %s" % (kind, e))
                continue
            n += 1
            if isinstance(a, dict) and isinstance(b, dict):
                common = [k for k in a if k in b and not k.startswith("__")]
                ok = "value_type" in common and all(a[k] == b[k] for k in common)
            else:
                ok = a == b
            ctx.obligation(ok)
            if not ok:
                kind_of = lambda v: v.get("value_type").name.split("::")[-1] if isinstance(v, dict) and isinstance(v.get("value_type"), interp.V) else "?"
                ctx.violation("reeval/%s" % kind, ctx.where(GCEV),
                              "evaluated a second time for the same entry (with a fresh map, as the next condition of a WHERE clause does), the `%s` node `%s` "
                              "yields a %s value `%s` where the first evaluation gave a %s value `%s`: comparisons dispatch on the type, so `A and B` depends on "
                              "what was evaluated before" % (kind, text, kind_of(b), text_of(ctx, b), kind_of(a), text_of(ctx, a)))
    ctx.covered("expression nodes evaluated twice on one Searcher state (typed value stable)", n, distinct_keys=["function", "field", "arith", "val"], exhaustive=True)
    ctx.floor(n, 8, "re-evaluations of get_column_expr_value", GCEV)
