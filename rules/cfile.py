"""Scenario evaluation of Searcher::check_file (the per-entry pipeline: filter, count, evaluate, render, buffer or print).

check_file is read by the finite interpreter (rules/interp.py, crate calls interpreted) with its collaborators replaced by
recording stand-ins: conforms answers with the scenario's verdict, the expression / column evaluators answer with tagged
values (and remember them under the expression's text, as the real evaluator does), the results writer, the ordered buffer
and standard output record what they are handed.  What is decided is the wiring of check_file on a finite table of
scenarios: (WHERE verdict) x (buffered) x (aggregate) x (rows found so far) x (standard output open / closed)."""
import interp
from extra import _expr_dict

CHECK_FILE = "searcher::Searcher::check_file"


def tagged(tag):
    d = _expr_dict(interp, val=interp.some(tag))
    d["__tag"] = tag
    return d


class Run:
    def __init__(self, ctx):
        import norm
        self.ctx = ctx
        self.hir = ctx.anchor_hir(CHECK_FILE)
        self.ps = ctx.prog.fns[CHECK_FILE]["params"]
        tys = norm.param_types(ctx.prog.fns[CHECK_FILE].get("sig"))
        sp = [p for p, t in zip(self.ps, tys) if "Searcher" in t]
        self.self_param = sp[0]["id"] if sp else self.ps[0]["id"]
        fi = [p for p, t in zip(self.ps, tys) if "FileInfo" in t and "Option<" in t]
        self.file_info_param = fi[0]["id"] if fi else None

    def run(self, where=None, buffered=False, aggregate=False, found=0, stdout="ok", select=("a", "b"), order=("k",), group=(), columns=("Name",), member=False, blank=False):
        """where: None (no WHERE clause) / True / False; stdout: "ok" / "pipe" / "other".
        -> (return value, events, self after)"""
        ev = []
        bufs = []
        self.info_misses = []
        self._member_info = None
        ofields = [tagged(t) for t in order]
        oasc = [True] * len(order)
        q = {"expr": interp.some(tagged("where")) if where is not None else interp.NONE,
             "fields": [tagged(t) for t in select], "ordering_fields": ofields, "ordering_asc": oasc,
             "grouping_fields": [tagged(t) for t in group], "roots": [], "limit": 0}
        selfv = interp.LazySelf({"fms": {"__fms": True}, "query": q, "found": found, "use_colors": False, "results_writer": {"__rw": True},
                 "output_buffer": {"__ob": True}, "raw_output_buffer": [], "partitioned_output_buffer": {"__pb": True},
                 "config": {"debug": False}, "error_count": 0, "current_follow_symlinks": False})

        def text_of(x):
            if isinstance(x, dict) and "__tag" in x:
                return "<%s>" % x["__tag"]
            if isinstance(x, interp.V):
                return x.name.split("::")[-1].lower()
            return None

        def call(node, recv, args, it, env):
            callee = str(node.get("callee", ""))
            m = node.get("m")
            if isinstance(recv, dict) and "__fms" in recv:
                ev.append(("fms." + str(m),))
                return ((),)
            if m == "conforms" or callee.endswith("Searcher::conforms"):
                ev.append(("conforms",))
                if member and not any(a is self._member_info for a in args):
                    self.info_misses.append("the WHERE condition")
                return (bool(where),)
            if m == "get_all_fields":
                return ([interp.V("Field::" + c) for c in columns],)
            if m == "get_field_value" or callee.endswith("::get_field_value"):
                f = [a for a in args if isinstance(a, interp.V) and a.name.startswith("Field::")]
                ev.append(("column", f[0].name if f else "?"))
                return ({"__variant": "col:%s" % (f[0].name.split("::")[-1] if f else "?")},)
            if m == "get_column_expr_value" or callee.endswith("::get_column_expr_value"):
                e = [a for a in args if isinstance(a, dict) and "__tag" in a]
                maps = [a for a in args if isinstance(a, interp.HMap)]
                tag = e[0]["__tag"] if e else "?"
                ev.append(("eval", tag))
                if member and not any(a is self._member_info for a in args):
                    self.info_misses.append(tag)        # evaluated without the archive member's own record
                for mp in maps:
                    dict.__setitem__(mp, "<%s>" % tag, "" if blank else "val:%s" % tag)      # the evaluator's memo, keyed by the expression's text
                return ({"__variant": "" if blank else "val:%s" % tag},)
            if m == "to_string" and isinstance(recv, dict) and "__variant" in recv:
                return (recv["__variant"],)
            if m == "to_string" and text_of(recv) is not None:
                return (text_of(recv),)
            if m in ("contains_colorized",):
                return (False,)
            if m == "is_buffered" or callee.endswith("::is_buffered"):
                return (buffered,)
            if m in ("has_aggregate_column",) or callee.endswith("::has_aggregate_column"):
                return (aggregate,)
            if m in ("has_ordering", "is_ordered"):
                return (bool(order),)
            if isinstance(recv, dict) and "__rw" in recv:
                ev.append((str(m),) + tuple(args))
                return (interp.V("Result::Ok", [()]),)
            if isinstance(recv, dict) and "__ob" in recv and m == "insert":
                ev.append(("insert",) + tuple(args))
                return (interp.NONE,)
            if callee.endswith("Criteria::new") or callee.endswith("Criteria<T>::new"):
                return ({"__criteria": tuple(args)},)
            if callee.endswith("WritableBuffer::new"):
                b = {"__buf": len(bufs)}
                bufs.append(b)
                return (b,)
            if len(args) == 1 and isinstance(args[0], dict) and "__buf" in args[0] and (callee.endswith("::from") or callee.endswith("::into") or m in ("into", "to_string")):
                return ("<text of buffer %d>" % args[0]["__buf"],)
            if isinstance(recv, dict) and "__buf" in recv and m in ("into", "to_string"):
                return ("<text of buffer %d>" % recv["__buf"],)
            if callee.endswith("vec::from_elem") and len(args) == 2 and isinstance(args[1], int):
                return ([args[0]] * args[1],)
            if m == "kind" and isinstance(recv, dict) and "__kind" in recv:
                return (interp.V(recv["__kind"]),)
            if callee.endswith("io::stdio::stdout") or callee.endswith("io::stdout"):
                return ({"__stdout": True},)
            if isinstance(recv, dict) and "__stdout" in recv and m in ("write_fmt", "write_all", "write", "lock", "flush"):
                if m == "lock":
                    return (recv,)
                if m == "flush":
                    return (interp.V("Result::Ok", [()]),)
                ev.append(("stdout",) + tuple(a for a in args if isinstance(a, str)))
                return (_io_result(stdout),)
            return None

        def effect(node, it, env):
            # write!(std::io::stdout(), "{}", String::from(buf)): the macro expansion is recorded as one write of its arguments
            from hirq import walk_exprs, render
            if node["k"] == "MCall" and node["m"] in ("write_fmt",) and "stdout" in render(node["recv"]):
                texts = []
                for y in walk_exprs(node):
                    if y["k"] == "Call" and y is not node and not y.get("exp") and ("from" in str(y.get("callee", "")) or "into" in str(y.get("callee", ""))):
                        try:
                            v = it.ev(y, env)
                            if isinstance(v, str):
                                texts.append(v)
                        except interp.Undecided:
                            pass
                    if y["k"] == "Path" and y.get("rk") == "Local":
                        try:
                            v = it.ev(y, env)
                            if isinstance(v, str) and v.startswith("<text of buffer"):
                                texts.append(v)
                        except interp.Undecided:
                            pass
                ev.append(("stdout",) + tuple(dict.fromkeys(texts)))
                return (_io_result(stdout),)
            return None
        env = {p["id"]: interp.Opaque(p.get("name") or "?") for p in self.ps}
        env[self.self_param] = selfv
        if self.file_info_param is not None:
            # the entry proper (None) or a member of an archive (Some(FileInfo)): both go through the same pipeline
            self._member_info = interp.some(interp.Opaque("file_info"))
            env[self.file_info_param] = self._member_info if member else interp.NONE
        got = interp.Interp(call=call, effect=effect, prog=self.ctx.prog, max_steps=60000).run(self.hir, env)
        return got, ev, selfv


def _io_result(state):
    if state == "ok":
        return interp.V("Result::Ok", [()])
    return interp.V("Result::Err", [{"__kind": "ErrorKind::BrokenPipe" if state == "pipe" else "ErrorKind::Other"}])


def pipeline(ctx):
    """X-PIPELINE: the per-entry pipeline of check_file on the scenario table"""
    run = Run(ctx)
    n = 0
    seen = set()

    def bad(key, msg):
        if key not in seen:
            seen.add(key)
            ctx.violation("pipeline/" + key, ctx.where(CHECK_FILE), msg)
    for where in (None, True, False):
        for buffered in (False, True):
            for aggregate in ((False, True) if buffered else (False,)):
                for found in (0, 1, 5):
                    for out in (("ok", "pipe", "other") if not buffered else ("ok",)):
                        for order, group, member, blank in ((("k",), (), False, False), (("a", "k"), ("g",), False, False), ((), (), False, False), (("k",), (), True, False), ((), (), True, False),
                                                            (("k",), (), False, True), ((), (), False, True)):
                            if not order and buffered and not aggregate:
                                continue
                            V_ = (lambda t: "") if blank else (lambda t: "val:%s" % t)
                            sc = "%s%sWHERE %s, %s, %d rows so far, standard output %s, ORDER BY %s" % ("archive member, " if member else "", "every value of the row empty, " if blank else "",
                                {None: "absent", True: "accepts", False: "rejects"}[where], ("buffered" + (" (aggregate)" if aggregate else "")) if buffered else "streamed",
                                found, {"ok": "open", "pipe": "closed", "other": "failing"}[out], list(order))
                            try:
                                got, ev, sv = run.run(where=where, buffered=buffered, aggregate=aggregate, found=found, stdout=out, order=order, group=group, member=member, blank=blank)
                            except interp.Undecided as e:
                                ctx.obligation(False)
                                bad("unreadable", "cannot evaluate check_file (%s): %s" % (sc, e))
                                return
                            n += 1
                            kinds = [e[0] for e in ev]
                            if member:
                                ctx.obligation(not run.info_misses)
                                if run.info_misses:
                                    bad("member-info", "for a member of an archive every expression of the row (select list, ORDER BY keys, GROUP BY keys) is evaluated on the "
                                        "member's own record; %s: %s evaluated without it (the values of the archive file itself are used)" % (sc, sorted(set(run.info_misses))))
                            okv = lambda v: isinstance(got, interp.V) and got.name == "Result::Ok" and got.args[0] is v
                            if where is False:
                                ok = okv(True) and not (set(kinds) & {"eval", "write_row", "insert", "stdout", "write_row_separator"}) and sv["found"] == found and not sv["raw_output_buffer"]
                                ctx.obligation(ok)
                                if not ok:
                                    bad("filter", "an entry rejected by WHERE must leave no trace (no row, no count, no buffered data) and let the search go on; "
                                        "%s: returns %s, events %s, found %s" % (sc, got, kinds, sv["found"]))
                                continue
                            if where is True and "conforms" not in kinds:
                                ctx.obligation(False)
                                bad("filter", "the WHERE condition is not evaluated (%s)" % sc)
                            ok = sv["found"] == found + 1
                            ctx.obligation(ok)
                            if not ok:
                                bad("count", "an accepted entry must count once: %s: found goes from %d to %s" % (sc, found, sv["found"]))
                            rows = [e for e in ev if e[0] == "write_row"]
                            want_items = [("<a>", V_("a")), ("<b>", V_("b"))]
                            ok = len(rows) == 1 and list(rows[0][2]) == want_items
                            ctx.obligation(ok)
                            if not ok:
                                bad("row-items", "the row must be rendered once from the select list in order, each cell the value of its expression (an accepted entry is a row, whatever its values); %s: %s" % (sc, [list(r[2]) for r in rows]))
                                continue
                            rowbuf = rows[0][1]
                            rowtext = "<text of buffer %d>" % rowbuf["__buf"] if isinstance(rowbuf, dict) and "__buf" in rowbuf else None
                            ins = [e for e in ev if e[0] == "insert"]
                            outs = [e for e in ev if e[0] == "stdout"]
                            seps = [e for e in ev if e[0] == "write_row_separator"]
                            if buffered:
                                ok = len(ins) == 1 and not outs
                                ctx.obligation(ok)
                                if not ok:
                                    bad("buffering", "a buffered row must be inserted into the output buffer once and not printed; %s: %d inserts, %d writes" % (sc, len(ins), len(outs)))
                                    continue
                                key, text = ins[0][1], ins[0][2]
                                crit = key.get("__criteria") if isinstance(key, dict) else None
                                ok = crit is not None and len(crit) == 3 and [x.get("__tag") for x in crit[0]] == list(order) and \
                                    list(crit[1]) == [V_(t) for t in order] and list(crit[2]) == [True] * len(order) and text == rowtext
                                ctx.obligation(ok)
                                if not ok:
                                    bad("buffer-key", "the buffer key must be Criteria::new(ordering fields, one value per ordering field in order, directions) and the "
                                        "buffered text the rendered row; %s: key %s, text %s" % (sc, crit and ([x.get("__tag") for x in crit[0]], list(crit[1]), list(crit[2])), text))
                                ok = not seps
                                ctx.obligation(ok)
                                if not ok:
                                    bad("separator", "a buffered row carries no separator (the drain writes them); %s" % sc)
                                raw = sv["raw_output_buffer"]
                                if aggregate:
                                    ok = len(raw) == 1 and all(("<%s>" % t) in raw[0] for t in ("a", "b") + tuple(group))
                                    ctx.obligation(ok)
                                    if not ok:
                                        bad("aggregate-row", "an accepted entry must add exactly one row holding the values of the selected and grouping expressions to the "
                                            "aggregation buffer; %s: %s" % (sc, [sorted(map(str, r)) for r in raw]))
                                else:
                                    ok = not raw
                                    ctx.obligation(ok)
                                    if not ok:
                                        bad("aggregate-row", "rows are kept for aggregation only when the query aggregates; %s" % sc)
                                ok = okv(True)
                                ctx.obligation(ok)
                                if not ok:
                                    bad("result", "a buffered entry lets the search go on; %s: returns %s" % (sc, got))
                            else:
                                ok = not ins and len(outs) == 1 and list(outs[0][1:]) == [rowtext]
                                ctx.obligation(ok)
                                if not ok:
                                    bad("streamed", "a streamed row must be written to standard output once, as rendered, and not buffered; %s: %d inserts, writes %s" % (sc, len(ins), [o[1:] for o in outs]))
                                    continue
                                want_sep = found + 1 > 1
                                ok = (len(seps) == 1 and seps[0][1] is rowbuf and kinds.index("write_row_separator") < kinds.index("write_row")) if want_sep else not seps
                                ctx.obligation(ok)
                                if not ok:
                                    bad("separator", "a streamed row is preceded, in the same buffer, by the row separator exactly when it is not the first row; %s: %d separators" % (sc, len(seps)))
                                if out == "ok":
                                    ok = okv(True)
                                elif out == "pipe":
                                    ok = okv(False)
                                else:
                                    ok = okv(True) or (isinstance(got, interp.V) and got.name == "Result::Err")
                                ctx.obligation(ok)
                                if not ok:
                                    bad("closed-output" if out == "pipe" else "result",
                                        "check_file must return Ok(false) when standard output is closed and Ok(true) otherwise; %s: returns %s" % (sc, got))
    ctx.covered("check_file evaluated on the scenario table (WHERE verdict x buffered x aggregate x rows so far x output state x ordering keys)", n,
                distinct_keys=["filter", "count", "row-items", "buffering", "buffer-key", "separator", "aggregate-row", "streamed", "closed-output"], exhaustive=True)
    ctx.floor(n, 60, "check_file scenarios", CHECK_FILE)
