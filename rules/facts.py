"""Fact extraction harness: hashes /repo's current working tree, runs the fsfacts driver
(rustc_private, nightly) over it when no fact file for that hash exists, and loads the JSON.
Nothing here executes fselect; the driver stops after type checking / MIR construction."""
import fcntl
import hashlib
import json
import os
import shutil
import subprocess
import sys
import time

VERIF = os.path.dirname(os.path.dirname(os.path.abspath(__file__)))
REPO = os.environ.get("VERIF_REPO", "/repo")
CACHE = os.path.join(VERIF, ".cache")
DRIVER_SRC = os.path.join(VERIF, "engine", "fsfacts")
DRIVER_TARGET = os.path.join(CACHE, "driver-target")
DRIVER_BIN = os.path.join(DRIVER_TARGET, "debug", "fsfacts")
FACTS_DIR = os.path.join(CACHE, "facts")
TARGET = os.path.join(CACHE, "target")

CONFIGS = {
    "default": [],
    "nodefault": ["--no-default-features"],
    "git": ["--no-default-features", "--features", "git"],
    "users": ["--no-default-features", "--features", "users"],
}


def _env():
    e = dict(os.environ)
    e["CARGO_NET_OFFLINE"] = "true"
    return e


def sysroot():
    return subprocess.check_output(["rustc", "+nightly", "--print", "sysroot"], env=_env(), text=True).strip()


def tree_hash(repo=REPO):
    h = hashlib.sha256()
    paths = []
    for base in ("src",):
        for root, dirs, files in os.walk(os.path.join(repo, base)):
            dirs.sort()
            for f in sorted(files):
                paths.append(os.path.join(root, f))
    for f in ("Cargo.toml", "Cargo.lock", "build.rs"):
        p = os.path.join(repo, f)
        if os.path.exists(p):
            paths.append(p)
    for p in paths:
        h.update(os.path.relpath(p, repo).encode())
        h.update(b"\0")
        with open(p, "rb") as fh:
            h.update(fh.read())
        h.update(b"\0")
    # the driver is part of the key: a rebuilt exporter invalidates old facts
    for root, dirs, files in os.walk(os.path.join(DRIVER_SRC, "src")):
        for f in sorted(files):
            with open(os.path.join(root, f), "rb") as fh:
                h.update(fh.read())
    return h.hexdigest()[:24]


def build_driver(force=False):
    os.makedirs(CACHE, exist_ok=True)
    lock = open(os.path.join(CACHE, "driver.lock"), "w")
    fcntl.flock(lock, fcntl.LOCK_EX)
    try:
        srcs = [os.path.join(DRIVER_SRC, "src", f) for f in os.listdir(os.path.join(DRIVER_SRC, "src"))]
        newest = max(os.path.getmtime(p) for p in srcs + [os.path.join(DRIVER_SRC, "Cargo.toml")])
        if not force and os.path.exists(DRIVER_BIN) and os.path.getmtime(DRIVER_BIN) >= newest:
            return
        e = _env()
        e["CARGO_TARGET_DIR"] = DRIVER_TARGET
        r = subprocess.run(["cargo", "build", "--offline"], cwd=DRIVER_SRC, env=e,
                           stdout=subprocess.PIPE, stderr=subprocess.STDOUT, text=True)
        if r.returncode != 0 or not os.path.exists(DRIVER_BIN):
            sys.stderr.write(r.stdout)
            raise RuntimeError("fsfacts driver failed to build")
    finally:
        fcntl.flock(lock, fcntl.LOCK_UN)
        lock.close()


def extract(config="default", repo=REPO, crate="fselect", out=None, target=None):
    """Run the driver over `repo`; returns path of the fact file. Fails closed."""
    build_driver()
    os.makedirs(FACTS_DIR, exist_ok=True)
    h = tree_hash(repo) if crate == "fselect" else "fixture"
    if out is None:
        out = os.path.join(FACTS_DIR, "%s.%s.json" % (h, config))
    if crate == "fselect" and os.path.exists(out):
        return out, h
    target = target or TARGET
    os.makedirs(target, exist_ok=True)
    lock = open(os.path.join(CACHE, "extract.lock"), "w")
    fcntl.flock(lock, fcntl.LOCK_EX)
    try:
        if crate == "fselect" and os.path.exists(out):
            return out, h
        # cargo skips a wrapper on a warm target dir: drop the member's fingerprints
        fp = os.path.join(target, "debug", ".fingerprint")
        if os.path.isdir(fp):
            for d in os.listdir(fp):
                if d.startswith(crate + "-"):
                    shutil.rmtree(os.path.join(fp, d), ignore_errors=True)
        e = _env()
        e["LD_LIBRARY_PATH"] = os.path.join(sysroot(), "lib") + ":" + e.get("LD_LIBRARY_PATH", "")
        e["RUSTFLAGS"] = "-Zmir-opt-level=0 -Awarnings"
        e["RUSTC_WORKSPACE_WRAPPER"] = DRIVER_BIN
        e["CARGO_TARGET_DIR"] = target
        e["FSFACTS_OUT"] = out
        e["FSFACTS_CRATE"] = crate
        e["FSFACTS_HASH"] = h
        e["FSFACTS_CONFIG"] = config
        if os.path.exists(out):
            os.remove(out)
        cmd = ["cargo", "+nightly", "check", "--offline"] + CONFIGS.get(config, [])
        t0 = time.time()
        r = subprocess.run(cmd, cwd=repo, env=e, stdout=subprocess.PIPE, stderr=subprocess.STDOUT, text=True)
        if r.returncode != 0 or not os.path.exists(out):
            tail = "\n".join(l for l in r.stdout.splitlines() if not l.startswith("  process didn't"))[-4000:]
            raise RuntimeError("fact extraction failed (config %s, %.1fs): the tree does not type-check under "
                               "the analysis toolchain or the driver crashed\n%s" % (config, time.time() - t0, tail))
        with open(out) as fh:
            meta = json.load(fh)["meta"]
        if meta.get("source_hash") != h:
            raise RuntimeError("fact file hash mismatch: %s != %s" % (meta.get("source_hash"), h))
        # prune old fact files (keep the 12 most recent)
        if crate == "fselect":
            fs = sorted((os.path.join(FACTS_DIR, f) for f in os.listdir(FACTS_DIR) if f.endswith(".json")),
                        key=os.path.getmtime)
            for p in fs[:-12]:
                try:
                    os.remove(p)
                except OSError:
                    pass
        return out, h
    finally:
        fcntl.flock(lock, fcntl.LOCK_UN)
        lock.close()


_loaded = {}


def load(config="default", repo=REPO):
    path, h = extract(config, repo)
    if path not in _loaded:
        with open(path) as fh:
            _loaded[path] = json.load(fh)
    return _loaded[path], h


if __name__ == "__main__":
    t0 = time.time()
    cfgs = sys.argv[1:] or ["default"]
    for c in cfgs:
        p, h = extract(c)
        print(c, p, "%.1fs" % (time.time() - t0))
