#!/usr/bin/env python3
"""Runs every confirmed seeded change under /verif/seeded against the check of the property it was written for
(scratch copy of /repo; /repo itself is never touched) and reports which rules fire.  Updates meta.json `caught_by`."""
import json
import os
import subprocess
import sys

HERE = os.path.dirname(os.path.abspath(__file__))
VERIF = os.path.dirname(HERE)


def one(sid):
    d = os.path.join(VERIF, "seeded", sid)
    meta_p = os.path.join(d, "meta.json")
    meta = json.load(open(meta_p)) if os.path.exists(meta_p) else {"property": sid.split("-")[0]}
    prop = meta["property"]
    r = subprocess.run([sys.executable, os.path.join(VERIF, "tools", "try_patch.py"), os.path.join(d, "patch.diff"), prop],
                       stdout=subprocess.PIPE, stderr=subprocess.STDOUT, text=True)
    fired = [l.strip() for l in r.stdout.splitlines() if l.startswith("    ")]
    status = "caught" if r.returncode == 0 else ("MISSED" if r.returncode == 1 else "PATCH-BROKEN")
    bad = 0
    if meta.get("kind") == "neutral":
        # a change that stopped manifesting once a latent defect was repaired: behaviour-preserving today, must stay silent
        status = {"caught": "FALSE-ALARM", "MISSED": "silent"}.get(status, status)
        if status != "silent":
            bad = 1
    elif status != "caught":
        bad = 1
    meta["caught_by_check"] = prop if status in ("caught", "FALSE-ALARM") else None
    meta["reports"] = fired[:4]
    rl = [l for l in r.stdout.splitlines() if l.startswith("  rules: ")]
    meta["caught_by_rules"] = rl[0][9:].split() if rl else []
    json.dump(meta, open(meta_p, "w"), indent=1)
    return sid, status, bad, (fired[0][:150] if fired else r.stdout.strip()[:150])


def main():
    import concurrent.futures
    ids = sorted(d for d in os.listdir(os.path.join(VERIF, "seeded")) if os.path.isdir(os.path.join(VERIF, "seeded", d)))
    sel = [a for a in sys.argv[1:] if not a.startswith("-j")]
    j = [int(a[2:]) for a in sys.argv[1:] if a.startswith("-j")]
    ids = [sid for sid in ids if not sel or any(sid.startswith(s) for s in sel)]
    bad = 0
    with concurrent.futures.ThreadPoolExecutor(max_workers=(j[0] if j else 6)) as ex:
        for sid, status, b, first in ex.map(one, ids):
            bad += b
            print("%-8s %-8s %s" % (status, sid, first), flush=True)
    print("%d seeds, %d not as expected" % (len(ids), bad))
    return 1 if bad else 0


if __name__ == "__main__":
    sys.exit(main())
