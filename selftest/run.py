#!/usr/bin/env python3
"""Selftest of the checker (not a registered check): applies each mutant / behaviour-preserving variant of
selftest/corpus.py to a scratch copy of /repo (outside /repo and /verif), runs the property's check against
the copy and verifies that mutants are reported at the expected rule and variants stay silent.
usage: selftest/run.py [ID-prefix ...] [-j N]"""
import concurrent.futures
import os
import shutil
import subprocess
import sys
import tempfile

HERE = os.path.dirname(os.path.abspath(__file__))
VERIF = os.path.dirname(HERE)
sys.path.insert(0, HERE)
import corpus  # noqa: E402

REPO = "/repo"


def run_one(m):
    d = tempfile.mkdtemp(prefix="fsmut-")
    try:
        for f in ("Cargo.toml", "Cargo.lock"):
            shutil.copy(os.path.join(REPO, f), d)
        shutil.copytree(os.path.join(REPO, "src"), os.path.join(d, "src"))
        for e in m["edits"]:
            p = os.path.join(d, e[0])
            s = open(p).read()
            cnt = s.count(e[1])
            want = e[3] if len(e) > 3 else 1
            if cnt < 1 or (want and cnt != want):
                return m, "BROKEN-EDIT", "pattern occurs %d times in %s: %r" % (cnt, e[0], e[1][:60])
            s = s.replace(e[1], e[2])
            open(p, "w").write(s)
        env = dict(os.environ)
        env["VERIF_REPO"] = d
        env["VERIF_REPORTS_DIR"] = os.path.join(d, "reports")
        env["VERIF_EVIDENCE_DIR"] = os.path.join(d, "evidence")
        r = subprocess.run([os.path.join(VERIF, "check"), m["prop"]], env=env, stdout=subprocess.PIPE,
                           stderr=subprocess.STDOUT, text=True)
        out = r.stdout
        viol = [l for l in out.splitlines() if l.startswith("VIOLATION")]
        if m.get("kind", "mutant") == "variant":
            if r.returncode == 0 and not viol:
                return m, "ok", "silent"
            return m, "FALSE-ALARM", out[-1500:]
        if "extraction failed" in out or "cannot be analysed" in out:
            return m, "NO-COMPILE", out[-800:]
        exp = m.get("expect", [])
        hit = [e for e in exp if any(e in l for l in viol)]
        if r.returncode == 1 and viol and (not exp or hit):
            return m, "ok", "; ".join(l.split("replay=")[1].rsplit("/", 1)[1] for l in viol)[:200]
        if r.returncode == 1 and viol:
            return m, "WRONG-RULE", "expected %s got %s" % (exp, viol)
        return m, "MISSED", out[-600:]
    finally:
        shutil.rmtree(d, ignore_errors=True)


def main():
    args = [a for a in sys.argv[1:] if not a.startswith("-j")]
    jobs = 8
    for a in sys.argv[1:]:
        if a.startswith("-j"):
            jobs = int(a[2:])
    ms = [m for m in corpus.CORPUS if not args or any(m["id"].startswith(a) for a in args)]
    bad = 0
    with concurrent.futures.ThreadPoolExecutor(jobs) as ex:
        for m, status, info in ex.map(run_one, ms):
            if status != "ok":
                bad += 1
            print("%-12s %-34s %-8s %s" % (status, m["id"], m.get("kind", "mutant"), info if status != "ok" else info[:110]))
    print("%d cases, %d not ok" % (len(ms), bad))
    return 1 if bad else 0


if __name__ == "__main__":
    sys.exit(main())
