#!/usr/bin/env python3
"""Runs every registered check against every behaviour-preserving refactoring stored under selftest/refactors/<prop>/
(written by independent sub-agents that saw only the property text), each applied alone to a scratch copy of /repo.
Every check must stay silent.  usage: selftest/refactors.py [prefix ...] [-jN]"""
import concurrent.futures
import glob
import os
import subprocess
import sys

HERE = os.path.dirname(os.path.abspath(__file__))
VERIF = os.path.dirname(HERE)


def one(path):
    r = subprocess.run([sys.executable, os.path.join(VERIF, "tools", "try_patch.py"), path], stdout=subprocess.PIPE, stderr=subprocess.STDOUT, text=True)
    return path, r.returncode, r.stdout


def main():
    args = [a for a in sys.argv[1:] if not a.startswith("-j")]
    j = [int(a[2:]) for a in sys.argv[1:] if a.startswith("-j")]
    # (selftest/variants/*.diff: correct counterparts of seeded changes - same mechanism without the slip - must be silent too)
    paths = sorted(glob.glob(os.path.join(HERE, "refactors", "*", "refactor-*.diff"))) + sorted(glob.glob(os.path.join(HERE, "variants", "*.diff")))
    if args:
        paths = [p for p in paths if any(("/" + a) in p or a in p.split("/")[-2] for a in args)]
    bad = 0
    with concurrent.futures.ThreadPoolExecutor(max_workers=(j[0] if j else 6)) as ex:
        for path, rc, out in ex.map(one, paths):
            tag = "/".join(path.split("/")[-2:])
            if rc == 1 and "no check fires" in out:
                print("silent   %s" % tag)
            elif rc == 2:
                bad += 1
                print("BROKEN   %s  %s" % (tag, out.strip()[:150]))
            else:
                bad += 1
                print("ALARM    %s" % tag)
                for l in out.splitlines():
                    if l.startswith("==") or l.startswith("  rules") or l.startswith("    "):
                        print("         " + l[:260])
    print("%d refactorings, %d not silent" % (len(paths), bad))
    return 1 if bad else 0


if __name__ == "__main__":
    sys.exit(main())
