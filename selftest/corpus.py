"""Mutation corpus for the checker selftest.  Each mutant compiles and (where checked) passes the repository's
137 tests; each must be reported by the named property's check at a finding key containing one of `expect`.
Variants are behaviour-preserving rewrites that must stay silent.  edits: (file, old, new[, expected count])."""

CORPUS = []


def M(id, prop, edits, expect=(), kind="mutant"):
    CORPUS.append({"id": id, "prop": prop, "edits": edits, "expect": list(expect), "kind": kind})


S, P, O, U, F = "src/searcher.rs", "src/parser.rs", "src/operators.rs", "src/util/mod.rs", "src/function.rs"

# ---------------------------------------------------------------- C02
M("C02-R1-int-gte", "C02", [(S, "Op::Gte => int_value >= val,", "Op::Gte => int_value > val,")], ["conforms_Int_Gte"])
M("C02-R1-float-lt-swapped", "C02", [(S, "Op::Lt => float_value < val,", "Op::Lt => val < float_value,")], ["conforms_Float_Lt"])
M("C02-R1-bool-ne", "C02", [(S, "Op::Ne | Op::Ene => field_value.to_bool() != val,", "Op::Ne | Op::Ene => field_value.to_bool() == val,")], ["conforms_Bool_Ne"])
M("C02-R2-between-lower-gt", "C02", [(P, "false => Op::Gte,", "false => Op::Gt,")], ["parse_cond_between"])
M("C02-R3-remove-ne-alias", "C02", [(O, '"!=" | "<>" | "ne" => Some(Op::Ne),', '"!=" | "ne" => Some(Op::Ne),')], ["operator_missing"])
M("C02-R4-string-as-field", "C02", [(P, "            Some(Lexem::RawString(ref s)) => {\n                if let Ok(field) = Field::from_str(s) {",
                                      "            Some(Lexem::RawString(ref s)) | Some(Lexem::String(ref s)) if true => {\n                if let Ok(field) = Field::from_str(s) {")], ["from_str"])
M("C02-R5-uid-as-string", "C02", [(S, "return Variant::from_int(uid as i64);", "return Variant::from_string(&uid.to_string());")], ["column-kind_Uid"])
M("C02-R6-yes-false", "C02", [(U, '"true" | "1" | "yes" | "y" => Some(true),\n        "false" | "0" | "no" | "n" => Some(false),',
                                  '"true" | "1" | "y" => Some(true),\n        "false" | "0" | "no" | "n" | "yes" => Some(false),')], ["boolean-literal"])
M("C02-V-int-mirrored", "C02", [(S, "Op::Gt => int_value > val,", "Op::Gt => val < int_value,")], kind="variant")
M("C02-V-arms-merged", "C02", [(S, "Op::Gte => float_value >= val,", "Op::Gte => !(float_value < val),")], kind="variant")

# ---------------------------------------------------------------- C03
M("C03-R1-negate-gt", "C03", [(O, "Op::Gt => Op::Lte,", "Op::Gt => Op::Lt,")], ["negate_Gt"])
M("C03-R1-negate-like", "C03", [(O, "Op::Like => Op::NotLike,", "Op::Like => Op::NotRx,")], ["negate_Like"])
M("C03-R2-no-demorgan", "C03", [(P, "LogicalOp::And => LogicalOp::Or,\n                LogicalOp::Or => LogicalOp::And,", "LogicalOp::And => LogicalOp::And,\n                LogicalOp::Or => LogicalOp::Or,")], ["de-morgan"])
M("C03-R3-not-between", "C03", [(P, "true => Op::Lt,", "true => Op::Lte,")], ["not-between"])
M("C03-R4-and-builds-or", "C03", [(P, "Some(right) => Some(Expr::logical_op(right, LogicalOp::And, expr.unwrap())),", "Some(right) => Some(Expr::logical_op(right, LogicalOp::Or, expr.unwrap())),")], ["layering_"])
M("C03-R5-and-shortcircuit", "C03", [(S, "if !left_result {\n                        result = false;", "if !left_result {\n                        result = true;")], ["conforms_And"])
M("C03-R5-or-as-and", "C03", [(S, "result = left_result || right_result", "result = left_result && right_result")], ["conforms_Or"])
M("C03-R6-not-sets-true", "C03", [(P, "negate = !negate;", "negate = true;")], ["not-parity"])
M("C03-R7-infix-not-ignored", "C03", [(O, "Some(op) if not => Some(Self::negate(op)),", "Some(op) if !not => Some(Self::negate(op)),")], ["from_with_not"])
M("C03-V-negate-reordered", "C03", [(O, "            Op::Eq => Op::Ne,\n            Op::Ne => Op::Eq,", "            Op::Ne => Op::Eq,\n            Op::Eq => Op::Ne,")], kind="variant")

# ---------------------------------------------------------------- C13
M("C13-R1-gt-start", "C13", [(S, "Op::Gt => dt > finish,", "Op::Gt => dt > start,")], ["DateTime_Gt"])
M("C13-R1-lte-strict", "C13", [(S, "Op::Lte => dt <= finish,", "Op::Lte => dt < finish,")], ["DateTime_Lte"])
M("C13-R2-min-60", "C13", [("src/util/datetime.rs", "min_start = 0;\n                    min_finish = 59;", "min_start = 0;\n                    min_finish = 60;")], ["interval_with_"])
M("C13-R2-hour-finish-absent", "C13", [("src/util/datetime.rs", "hour_start = 0;\n                    hour_finish = 23;", "hour_start = 0;\n                    hour_finish = 0;")], ["interval_with_"])
M("C13-R2-yesterday-end", "C13", [("src/util/datetime.rs", "let finish = date.and_hms_opt(23, 59, 59).unwrap();\n\n        return Ok((start, finish));\n    }\n\n    match", "let finish = date.and_hms_opt(23, 59, 0).unwrap();\n\n        return Ok((start, finish));\n    }\n\n    match")], ["whole-day"])
M("C13-R3-format", "C13", [("src/util/datetime.rs", '"%Y-%m-%d %H:%M:%S"', '"%Y-%m-%d %I:%M:%S"')], ["format_datetime"])
M("C13-V-eq-rewritten", "C13", [(S, "Op::Eq => dt >= start && dt <= finish,", "Op::Eq => !(dt < start) && !(dt > finish),")], kind="variant")

# ---------------------------------------------------------------- C14
M("C14-R1-kb-1024", "C14", [(U, 'Ok(size) => Some((*size * 1000.0) as u64),', 'Ok(size) => Some((*size * 1024.0) as u64),')], ["unit_multiplier_kb"])
M("C14-R1-remove-tib", "C14", [(U, 'if length > 3 && string.ends_with("tib") {', 'if length > 3 && string.ends_with("tibx") {')], ["unit_missing_tib"])
M("C14-R2-b-first", "C14", [(U, 'if length > 1 && string.ends_with("k") {', 'if length > 1 && string.ends_with("b") && !string.ends_with("kb") {\n        return string[..(length - 1)].parse::<u64>().ok();\n    }\n\n    if length > 1 && string.ends_with("k") {')], ["ladder-order"])
M("C14-R4-kb-binary", "C14", [(U, '"kb" => {\n            fixed_at = Some(humansize::FixedAt::Kilo);\n            format = humansize::DECIMAL;', '"kb" => {\n            fixed_at = Some(humansize::FixedAt::Kilo);\n            format = humansize::BINARY;')], ["format-unit_kb"])

# ---------------------------------------------------------------- C12
G = "src/util/glob.rs"
M("C12-R1-glob-plus-unescaped", "C12", [(G, '            "+" => "\\\\+",\n            "{" => "\\\\{",\n            "}" => "\\\\}",\n            "|" => "\\\\|",\n            "\\\\" => "\\\\\\\\",\n            _ => error_exit("Error parsing glob expression", s),',
                                          '            "+" => "+",\n            "{" => "\\\\{",\n            "}" => "\\\\}",\n            "|" => "\\\\|",\n            "\\\\" => "\\\\\\\\",\n            _ => error_exit("Error parsing glob expression", s),')], ["convert_glob_to_pattern"])
M("C12-R1-like-underscore-any", "C12", [(G, '"_" => ".",', '"_" => ".*",')], ["convert_like_to_pattern"])
M("C12-R1-glob-no-end-anchor", "C12", [(G, 'format!("^(?i){}$", string)', 'format!("^(?i){}", string)', 2)], ["convert_glob_to_pattern"])
M("C12-R1-glob-case-sensitive", "C12", [(G, 'format!("^(?i){}$", string)', 'format!("^{}$", string)', 2)], ["convert_glob_to_pattern"])
M("C12-R3-notlike-not-negated", "C12", [(S, "                                            self.regex_cache.insert(val, regex.clone());\n                                            return !regex.is_match(&field_value.to_string());\n                                        }\n                                        _ => error_exit(\"Incorrect LIKE expression\", val.as_str()),",
                                            "                                            self.regex_cache.insert(val, regex.clone());\n                                            return regex.is_match(&field_value.to_string());\n                                        }\n                                        _ => error_exit(\"Incorrect LIKE expression\", val.as_str()),")], ["complement_NotLike"])
M("C12-R4-eeq-uses-glob", "C12", [(S, "Op::Eeq => val.eq(&field_value.to_string()),", "Op::Eeq => Regex::new(&convert_glob_to_pattern(&val)).map(|r| r.is_match(&field_value.to_string())).unwrap_or(false),")], ["exact_Eeq"])
M("C12-R4-like-uses-glob", "C12", [(S, "let pattern = convert_like_to_pattern(&val);", "let pattern = convert_glob_to_pattern(&val);", 2)], ["translator_Like"])
M("C12-R4-isglob-star-only", "C12", [(G, "s.contains(\"*\") || s.contains('?')", "s.contains(\"*\")")], ["is_glob"])

# ---------------------------------------------------------------- C11
L, FI, Q = "src/lexer.rs", "src/field.rs", "src/query.rs"
M("C11-R1-field-dirname", "C11", [(FI, '"dir" | "directory" | "dirname" => Ok(Field::Directory),', '"dir" | "directory" => Ok(Field::Directory),')], ["column_missing_dirname"])
M("C11-R1-function-pow", "C11", [(F, '"power" | "pow" => Ok(Function::Power),', '"power" => Ok(Function::Power),')], ["function_missing_pow"])
M("C11-R1-ext-maps-name", "C11", [(FI, '"ext" | "extension" => Ok(Field::Extension),', '"extension" => Ok(Field::Extension),\n            "ext" => Ok(Field::Name),')], ["column_wrong_ext"])
M("C11-R1-format-case", "C11", [(Q, "let s = s.to_lowercase();\n\n        match s.as_str() {", "let s = s.to_string();\n\n        match s.as_str() {")], ["format_"])
M("C11-R1-arith-mod", "C11", [(O, '"%" | "mod" => Some(ArithmeticOp::Modulo),', '"%" => Some(ArithmeticOp::Modulo),')], ["arithmetic_missing_mod"])
M("C11-R2-depth-sets-min", "C11", [(P, 'if s == "mindepth" {\n                                mode = RootParsingMode::MinDepth;\n                            } else if s == "maxdepth" || s == "depth" {', 'if s == "mindepth" || s == "depth" {\n                                mode = RootParsingMode::MinDepth;\n                            } else if s == "maxdepth" {')], ["root-option-effect_depth"])
M("C11-R2-sym-sets-archives", "C11", [(P, "symlinks = true;", "archives = true;")], ["root-option-effect_sym"])
M("C11-R2-nogit-true", "C11", [(P, "gitignore = Some(false);", "gitignore = Some(true);")], ["root-option-effect_nogit"])
M("C11-R3-lexer-ge-removed", "C11", [(L, '"eq" | "ne" | "gt" | "lt" | "ge" | "le"', '"eq" | "ne" | "gt" | "lt" | "le"')], ["operator-word_ge"])
M("C11-R3-lexer-no-lowercase", "C11", [(L, "LexingMode::RawString => match s.to_lowercase().as_str() {", "LexingMode::RawString => match s.as_str() {")], ["lexer_case"])
M("C11-R3-asc-not-dropped", "C11", [(L, '"asc" => self.next_lexem(),', '"asc" => Some(Lexem::RawString(s)),')], ["lexer_asc"])
M("C11-R4-group-case", "C11", [(P, 'if s.to_lowercase() == "group" {\n                                if let Some(Lexem::By) = self.next_lexem() {\n                                    self.drop_lexem();\n                                    self.drop_lexem();\n                                    break;', 'if s == "group" {\n                                if let Some(Lexem::By) = self.next_lexem() {\n                                    self.drop_lexem();\n                                    self.drop_lexem();\n                                    break;')], ["case_parse_fields_group"])
M("C11-R4-opfrom-case", "C11", [(O, "match text.to_lowercase().as_str() {\n            \"=\" | \"==\"", "match text.as_str() {\n            \"=\" | \"==\"")], ["operator_"])
M("C11-R5-curly-close-any", "C11", [(P, "if (lexem == Lexem::Close && !curly_mode)\n                        || (lexem == Lexem::CurlyClose && curly_mode) =>", "if lexem == Lexem::Close =>")], ["brackets_parse_function"])

# ---------------------------------------------------------------- C04
MO, CAPS, CFG = "src/mode.rs", "src/util/capabilities.rs", "src/config.rs"
M("C04-R1-wgrp-bit", "C04", [(MO, "const S_IWGRP: u32 = 0o20;", "const S_IWGRP: u32 = 0o40;")], ["perm_mode_group_write"])
M("C04-R1-type-bit-test", "C04", [(MO, "mode & S_IFMT == S_IFCHR", "mode & S_IFCHR == S_IFCHR")], ["type_mode_is_char_device"])
M("C04-R1-user-all-or", "C04", [(MO, "mode_user_read(mode) && mode_user_write(mode) && mode_user_exec(mode)", "mode_user_read(mode) && mode_user_write(mode) || mode_user_exec(mode)")], ["perm_mode_user_all"])
M("C04-R2-sgid-case-swapped", "C04", [(MO, "    if mode_group_exec(mode) {\n        if mode_sgid(mode) {\n            s.push('s')", "    if mode_group_exec(mode) {\n        if mode_sgid(mode) {\n            s.push('S')")], ["mode-string_permissions"])
M("C04-R2-type-order", "C04", [(MO, "s.push('p')", "s.push('f')")], ["mode-string_type-char"])
M("C04-R3-uid-gid", "C04", [(S, "if let Some(uid) = mode::get_uid(attrs) {\n                        return Variant::from_int(uid as i64);", "if let Some(uid) = mode::get_gid(attrs) {\n                        return Variant::from_int(uid as i64);")], ["accessor_Uid"])
M("C04-R3-sha256-512", "C04", [(S, "Variant::from_string(&crate::util::get_sha256_file_hash(entry))", "Variant::from_string(&crate::util::get_sha512_file_hash(entry))")], ["accessor_Sha256"])
M("C04-R3-isbook-doc", "C04", [(S, "                .is_book\n                .as_ref()\n                .unwrap_or(self.default_config.is_book.as_ref().unwrap()),", "                .is_book\n                .as_ref()\n                .unwrap_or(self.default_config.is_doc.as_ref().unwrap()),")], ["extension-class_is_book"])
M("C04-R3-groupexec-pred", "C04", [(S, "&mode::mode_group_exec,", "&mode::mode_group_write,")], ["accessor_GroupExec"])
M("C04-R3-inode-nlink", "C04", [(S, "return Variant::from_int(attrs.nlink() as i64);", "return Variant::from_int(attrs.ino() as i64);")], ["accessor_Hardlinks"])
M("C04-R3-sha256-uses-sha224", "C04", [(U, "let mut hasher = sha2::Sha256::new();", "let mut hasher = sha2::Sha224::new();")], ["digest_get_sha256"])
M("C04-R3-sha1-uses-sha256", "C04", [(U, "let mut hasher = sha1::Sha1::new();", "let mut hasher = sha2::Sha256::new();")], ["digest_get_sha1"])
M("C04-R4-clear-misses-linecount", "C04", [(S, "        self.line_count_set = false;\n        self.line_count = None;\n\n        self.dimensions_set = false;\n        self.dimensions = None;\n\n        self.duration_set = false;\n        self.duration = None;\n\n        self.mp3_metadata_set = false;\n        self.mp3_metadata = None;\n\n        self.exif_metadata_set = false;\n        self.exif_metadata = None;\n    }\n\n    fn update_file_metadata",
                                               "        self.line_count = None;\n\n        self.dimensions_set = false;\n        self.dimensions = None;\n\n        self.duration_set = false;\n        self.duration = None;\n\n        self.mp3_metadata_set = false;\n        self.mp3_metadata = None;\n\n        self.exif_metadata_set = false;\n        self.exif_metadata = None;\n    }\n\n    fn update_file_metadata")], ["memo_clear_line_count_set"])
M("C04-R4-clear-after-conforms", "C04", [(S, "        self.fms.clear();\n\n        if let Some(ref expr) = self.query.expr {\n            let result = self.conforms(entry, file_info, expr);\n            if !result {\n                return Ok(true);\n            }\n        }\n", "        if let Some(ref expr) = self.query.expr {\n            let result = self.conforms(entry, file_info, expr);\n            if !result {\n                return Ok(true);\n            }\n        }\n\n        self.fms.clear();\n")], ["memo_clear-first"])
M("C04-R5-follow-stat", "C04", [(U, "true => symlink_metadata(entry.path()),", "true => fs::metadata(entry.path()),")], ["lstat"])
M("C04-R6-linecount-cr", "C04", [(U, "bytecount::count(buf, b'\\n')", "bytecount::count(buf, b'\\r')")], ["content_line_count"])
M("C04-R6-shebang-offset", "C04", [(U, "buf[0] == 0x23 && buf[1] == 0x21", "buf[0] == 0x23 || buf[1] == 0x21")], ["content_is_shebang"])
M("C04-R6-ext-case", "C04", [(U, "let s = file_name.to_ascii_lowercase();\n\n    for ext in extensions {", "let s = file_name.to_string();\n\n    for ext in extensions {")], ["content_has_extension"])
M("C04-R6-zip-ear", "C04", [(CFG, 'vec_of_strings![".zip", ".jar", ".war", ".ear"]', 'vec_of_strings![".zip", ".jar", ".war"]')], ["config_is_zip_archive"])
M("C04-R7-cap-bpf-bit", "C04", [(CAPS, "check_cap!(cap_bpf, 39 - 32, permitted, inherited, effective, result);", "check_cap!(cap_bpf, 38 - 32, permitted, inherited, effective, result);")], ["capability_"])
M("C04-R7-cap-word", "C04", [(CAPS, "let permitted = u32::from_le_bytes(caps[12..16].try_into().unwrap());", "let permitted = u32::from_le_bytes(caps[4..8].try_into().unwrap());")], ["capability_"])
M("C04-V-perm-nonzero", "C04", [(MO, "mode & S_IRUSR == S_IRUSR", "mode & S_IRUSR != 0")], kind="variant")

M("C15-R1-minus-lost-on-field", "C15", [(P, "                    let mut expr = Expr::field(field);\n                    expr.minus = minus;\n                    return Ok(Some(expr));", "                    let expr = Expr::field(field);\n                    return Ok(Some(expr));")], ["unary-minus"])
M("C15-R1-V-minus-set-once", "C15", [(P, "                    let mut expr = Expr::field(field);\n                    expr.minus = minus;\n                    return Ok(Some(expr));", "                    let mut expr = Expr::field(field);\n                    if minus {\n                        expr.minus = true;\n                    }\n                    return Ok(Some(expr));")], kind="variant")
# ---------------------------------------------------------------- C05 / C06
T = "src/util/top_n.rs"
M("C05-R1-direction-swapped", "C05", [(U, "if self.orderings[i] {\n            comparison\n        } else {\n            comparison.reverse()\n        }", "if self.orderings[i] {\n            comparison.reverse()\n        } else {\n            comparison\n        }")], ["C05-R1_cmp"])
M("C05-R1-numbers-operands", "C05", [(U, "        a.cmp(&b)\n    }\n\n    #[inline]\n    fn cmp_at_datetimes", "        b.cmp(&a)\n    }\n\n    #[inline]\n    fn cmp_at_datetimes")], ["C05-R1_cmp"])
M("C05-R1-dispatch", "C05", [(U, "if field.contains_numeric() {\n            comparison = self.cmp_at_numbers(other, i);", "if field.contains_numeric() {\n            comparison = self.cmp_at_direct(other, i);")], ["C05-R1_cmp"])
M("C05-R1-cmp-skips-first", "C05", [(U, "for i in 0..(self.values.len().min(other.values.len())) {", "for i in 1..(self.values.len().min(other.values.len())) {")], ["C05-R1_cmp"])
M("C05-R2-uid-not-numeric", "C05", [("src/field.rs", "            | Field::Uid | Field::Gid\n", "            | Field::Gid\n")], ["key-typing_Uid"])
M("C05-R2-length-not-numeric", "C05", [(F, "            Function::Length\n                | Function::Random", "            Function::Random")], ["key-typing_function_Length"])
M("C05-R2-numeric-no-left", "C05", [("src/expr.rs", "            Some(ref left) => Self::contains_numeric_field(left),\n            None => false,", "            Some(ref left) => left.field.as_ref().is_some_and(|f| f.is_numeric_field()),\n            None => false,")], ["key-typing_contains_numeric"])
M("C05-R3-positional-off", "C05", [(P, "Ok(idx) => match idx.checked_sub(1).and_then(|i| fields.get(i)) {", "Ok(idx) => match idx.checked_sub(0).and_then(|i| fields.get(i)) {")], ["positional"])
M("C05-R3-default-desc", "C05", [(P, "order_by_directions.push(true);", "order_by_directions.push(false);")], ["pairing"])
M("C05-R3-desc-first", "C05", [(P, "match order_by_directions.last_mut() {", "match order_by_directions.first_mut() {")], ["parse_order_by_desc"])
M("C05-R4-values-reversed", "C05", [(T, "self.echelons\n            .values()\n            .flat_map", "self.echelons\n            .values()\n            .rev()\n            .flat_map")], ["topn_"])
M("C06-R1-evict-ge", "C06", [(T, "if limit < self.count {", "if limit <= self.count {")], ["topn_eviction"])
M("C06-R1-victim-first", "C06", [(T, "self.echelons.iter().next_back().unwrap()", "self.echelons.iter().next().unwrap()")], ["topn_eviction"])
M("C06-R1-no-put-back", "C06", [(T, """                if !last_echelon.is_empty() {
                    self.echelons.insert(last_key, last_echelon);
                }
""", "")], ["topn_"])
M("C06-R1-evict-oldest-of-ties", "C06", [(T, "let popped = last_echelon.pop().unwrap();", "let popped = last_echelon.remove(0);")], ["topn_"])
# without the decrement the counter stays above the limit once it was exceeded and every later insertion evicts one row: the
# kept rows are the same (the counter is only compared with the limit), so this is a behaviour-preserving variant
M("C06-R1-no-decrement", "C06", [(T, "                self.count -= 1;\n", "")], kind="variant")
M("C06-R2-dir-loop-buffered", "C06", [(S, "if !self.is_buffered() && self.query.limit > 0 && self.query.limit <= self.found\n", "if self.query.limit > 0 && self.query.limit <= self.found\n")], ["early-exit_visit_dir_buffered"])
M("C06-R2-off-by-one", "C06", [(S, "if !self.is_buffered() && self.query.limit > 0 && self.query.limit <= self.found\n", "if !self.is_buffered() && self.query.limit > 0 && self.query.limit < self.found\n")], ["early-exit_visit_dir_condition"])
M("C06-R3-found-before-filter", "C06", [(S, "        self.fms.clear();\n\n        if let Some(ref expr) = self.query.expr {", "        self.fms.clear();\n        self.found += 1;\n\n        if let Some(ref expr) = self.query.expr {"), (S, "            }\n        }\n\n        self.found += 1;\n", "            }\n        }\n\n")], ["pipeline_filter"])
M("C06-R4-limitless-swapped", "C06", [(S, "output_buffer: if limit == 0 {", "output_buffer: if limit != 0 {")], ["topn-selection"])
M("C06-V-evict-mirrored", "C06", [(T, "if limit < self.count {", "if self.count > limit {")], kind="variant")

# ---------------------------------------------------------------- C07
M("C07-R1-int-division", "C07", [(F, "sum as f64 / size as f64", "(sum / size) as f64")], ["integer-division"])
M("C07-R2-min-uses-max", "C07", [(F, "                .min()\n                .unwrap_or(0); // If no items were found\n\n            min.to_string()", "                .max()\n                .unwrap_or(0); // If no items were found\n\n            min.to_string()")], ["aggregate-value_Min"])
M("C07-R2-varsamp-divisor", "C07", [(F, "            let size = raw_output_buffer.len();\n            let n = if size == 1 { 1 } else { size - 1 };\n            let variance = get_variance(raw_output_buffer, &buffer_key, n);\n\n            variance.to_string()", "            let size = raw_output_buffer.len();\n            let n = if size == 1 { 1 } else { size };\n            let variance = get_variance(raw_output_buffer, &buffer_key, n);\n\n            variance.to_string()")], ["aggregate-value_VarSamp"])
M("C07-R2-stddevpop-no-sqrt", "C07", [(F, "            let n = raw_output_buffer.len();\n            let variance = get_variance(raw_output_buffer, &buffer_key, n);\n            let result = variance.sqrt();", "            let n = raw_output_buffer.len();\n            let variance = get_variance(raw_output_buffer, &buffer_key, n);\n            let result = variance;")], ["aggregate-value_StdDevPop"])
M("C07-R2-count-sum", "C07", [(F, "Some(Function::Count) => raw_output_buffer.len().to_string(),", "Some(Function::Count) => get_buffer_sum(raw_output_buffer, &buffer_key).to_string(),")], ["aggregate-value_Count"])
M("C07-R2-variance-abs", "C07", [(F, "result += (avg - value).powi(2) / n as f64;", "result += (avg - value).abs() / n as f64;")], ["aggregate-value_"])
M("C07-R3-buffer-before-filter", "C07", [(S, "        self.fms.clear();\n\n        if let Some(ref expr) = self.query.expr {", "        self.fms.clear();\n        if self.has_aggregate_column() {\n            self.raw_output_buffer.push(HashMap::new());\n        }\n\n        if let Some(ref expr) = self.query.expr {")], ["buffer_"])

# ---------------------------------------------------------------- C15
E = "src/expr.rs"
M("C15-R1-addsub-operands-paren", "C15", [(P, "                        let expr = self.parse_mul_div()?;\n                        if op.is_none() {", "                        let expr = self.parse_paren()?;\n                        if op.is_none() {")], ["precedence_parse_add_sub"])
M("C15-R1-modulo-in-addsub", "C15", [(P, "Some(ArithmeticOp::Add) | Some(ArithmeticOp::Subtract) => {", "Some(ArithmeticOp::Add) | Some(ArithmeticOp::Subtract) | Some(ArithmeticOp::Modulo) => {"), (P, "                    Some(ArithmeticOp::Multiply)\n                    | Some(ArithmeticOp::Divide)\n                    | Some(ArithmeticOp::Modulo) => {", "                    Some(ArithmeticOp::Multiply)\n                    | Some(ArithmeticOp::Divide) => {")], ["precedence_"])
M("C15-R1-right-assoc", "C15", [(P, "Some(Expr::arithmetic_op(left, new_op.unwrap(), expr.unwrap()))\n                            }\n                            None => expr,\n                        };\n                    }\n                    _ => {\n                        self.drop_lexem();\n\n                        return Ok(left);\n                    }\n                }\n            } else {\n                self.drop_lexem();\n\n                return Ok(left);\n            }\n        }\n    }\n\n    fn parse_mul_div", "Some(Expr::arithmetic_op(expr.unwrap(), new_op.unwrap(), left))\n                            }\n                            None => expr,\n                        };\n                    }\n                    _ => {\n                        self.drop_lexem();\n\n                        return Ok(left);\n                    }\n                }\n            } else {\n                self.drop_lexem();\n\n                return Ok(left);\n            }\n        }\n    }\n\n    fn parse_mul_div")], ["associativity_parse_add_sub"])
M("C15-R2-subtract-swapped", "C15", [(O, "ArithmeticOp::Subtract => left.to_float() - right.to_float(),", "ArithmeticOp::Subtract => right.to_float() - left.to_float(),")], ["calc_Subtract"])
M("C15-R2-modulo-div", "C15", [(O, "ArithmeticOp::Modulo => left.to_float() % right.to_float(),", "ArithmeticOp::Modulo => left.to_float() / right.to_float(),")], ["calc_Modulo"])
M("C15-R3-key-drops-args", "C15", [(E, "            if let Some(ref args) = self.args {\n                for arg in args {\n                    fmt.write_str(\", \")?;\n                    fmt.write_str(&arg.to_string())?;\n                }\n            }\n", "")], ["key_args"])
M("C15-R3-key-drops-op", "C15", [(E, "        if let Some(ref op) = self.arithmetic_op {\n            fmt.write_str(match op {\n                ArithmeticOp::Add => \" + \",\n                ArithmeticOp::Subtract => \" - \",\n                ArithmeticOp::Multiply => \" * \",\n                ArithmeticOp::Divide => \" / \",\n                ArithmeticOp::Modulo => \" % \",\n            })?;\n        }\n", "        fmt.write_str(\" ? \")?;\n")], ["key_arithmetic_op"])
M("C15-R3-key-no-minus", "C15", [(E, "        if self.minus {\n            fmt.write_char('-')?;\n        }\n", "")], ["key_minus"])
M("C15-R4-minus-field-ignored", "C15", [(S, "                    .get_field_value(entry.unwrap(), file_info, field)\n                    .with_sign(column_expr.minus);", "                    .get_field_value(entry.unwrap(), file_info, field);")], ["minus_field"])

# ---------------------------------------------------------------- C16
M("C16-R1-rtrim-arm-removed", "C16", [(F, "        Some(Function::RTrim) => {\n            Variant::from_string(&function_arg.trim_end().to_string())\n        }\n", "")], ["dispatch_RTrim"])
M("C16-R2-ltrim-trim-end", "C16", [(F, "Variant::from_string(&function_arg.trim_start().to_string())", "Variant::from_string(&function_arg.trim_end().to_string())")], ["primitive_LTrim"])
M("C16-R2-length-bytes", "C16", [(F, "Variant::from_int(function_arg.chars().count() as i64)", "Variant::from_int(function_arg.len() as i64)")], ["primitive_Length"])
M("C16-R2-hex-octal", "C16", [(F, 'Ok(val) => Variant::from_string(&format!("{:x}", val)),', 'Ok(val) => Variant::from_string(&format!("{:o}", val)),')], ["primitive_Hex"])
M("C16-R2-dow-monday", "C16", [(F, "date.0.weekday().number_from_sunday()", "date.0.weekday().number_from_monday()")], ["primitive_DayOfWeek"])
M("C16-R2-least-max", "C16", [(F, "least = least.min(val);", "least = least.max(val);")], ["primitive_Least"])
M("C16-R2-replace-swapped", "C16", [(F, "let from = &function_args[0];\n            let to = &function_args[1];", "let from = &function_args[1];\n            let to = &function_args[0];")], ["operand_Replace"])
M("C16-R2-substr-zero-based", "C16", [(F, "Ok(pos) => pos.saturating_sub(1),", "Ok(pos) => pos,")], ["operand_Substring"])
M("C16-R2-month-year", "C16", [(F, "Ok(date) => Variant::from_int(date.0.month() as i64),", "Ok(date) => Variant::from_int(date.0.year() as i64),")], ["primitive_Month"])
M("C16-R4-arg-not-evaluated", "C16", [(S, "                    let arg_value =\n                        self.get_column_expr_value(entry, file_info, file_map, buffer_data, arg);\n                    function_args.push(arg_value.to_string());", "                    function_args.push(arg.to_string());")], ["composition"])

# ---------------------------------------------------------------- C01
M("C01-R1-min-gate-strict", "C01", [(S, "if min_depth == 0 || depth >= min_depth {", "if min_depth == 0 || depth > min_depth {")], ["depth_report-gate"])
M("C01-R1-max-gate-le", "C01", [(S, "if max_depth == 0 || depth < max_depth {", "if max_depth == 0 || depth <= max_depth {")], ["depth_descend-gate"])
M("C01-R1-depth-no-plus-one", "C01", [(S, "let depth = canonical_depth.saturating_sub(base_depth) + 1;", "let depth = canonical_depth.saturating_sub(base_depth);")], ["depth_"])
M("C01-R1-calc-depth-dot", "C01", [(U, 's.matches("/").count() as u32', 's.matches(".").count() as u32')], ["calc_depth"])
M("C01-R2-skip-dotfiles", "C01", [(S, "                            if pass_ignores {\n                                if min_depth == 0", "                            if pass_ignores && !entry.file_name().to_string_lossy().starts_with('.') {\n                                if min_depth == 0")], ["skip_guard"])
M("C01-R2-continue-on-special", "C01", [(S, "                        Ok(entry) => {\n                            let mut path = entry.path();", "                        Ok(entry) => {\n                            if entry.file_type().map(|t| !t.is_file() && !t.is_dir() && !t.is_symlink()).unwrap_or(false) {\n                                continue;\n                            }\n                            let mut path = entry.path();")], ["skip_early-exit"])
M("C01-R3-pop-back", "C01", [(S, "self.dir_queue.pop_front().unwrap()", "self.dir_queue.pop_back().unwrap()")], ["queue_"])
M("C01-R3-nested-drains", "C01", [(S, "                                                    traversal_mode,\n                                                    false,\n                                                );", "                                                    traversal_mode,\n                                                    true,\n                                                );")], ["queue_nested"])
M("C01-R4-dfs-root-depth", "C01", [(S, "                                                    max_depth,\n                                                    base_depth,", "                                                    max_depth,\n                                                    root_depth,")], ["recursion_"])
M("C01-R4-swapped-min-max", "C01", [(S, "                    &path,\n                    min_depth,\n                    max_depth,\n                    base_depth,", "                    &path,\n                    max_depth,\n                    min_depth,\n                    base_depth,")], ["recursion_"])
M("C01-R5-symlink-gate-open", "C01", [(S, "            false => !file_type.is_symlink(),\n        }\n    }\n\n    #[cfg(not(unix))]", "            false => true,\n        }\n    }\n\n    #[cfg(not(unix))]")], ["symlink-gate_table"])
M("C01-R5-default-root", "C01", [("src/query.rs", 'path: String::from("."),', 'path: String::from("/"),')], ["default-root"])
M("C01-V-min-gate-mirrored", "C01", [(S, "if min_depth == 0 || depth >= min_depth {", "if min_depth == 0 || min_depth <= depth {")], kind="variant")
M("C01-V-max-gate-negated", "C01", [(S, "if max_depth == 0 || depth < max_depth {", "if max_depth == 0 || !(depth >= max_depth) {")], kind="variant")

# ---------------------------------------------------------------- C09
OJ, OH, OF, OM, OC = "src/output/json.rs", "src/output/html.rs", "src/output/flat.rs", "src/output/mod.rs", "src/output/csv.rs"
M("C09-R1-grouped-no-separator", "C09", [(S, "                    if first {\n                        first = false;\n                    } else {\n                        let _ = self.results_writer.write_row_separator(&mut buf);\n                    }\n", "")], ["separator_list_search_results"])
M("C09-R1-streamed-separator-always", "C09", [(S, "if !self.is_buffered() && self.found > 1 {", "if !self.is_buffered() && self.found > 0 {")], ["separator_check_file"])
M("C09-R1-drain-no-first", "C09", [(S, "                if first {\n                    first = false;\n                } else if let Err(e) = self", "                if !first {\n                    first = false;\n                } else if let Err(e) = self")], ["separator_list_search_results_buffered"])
M("C09-R2-html-no-amp", "C09", [(OH, "    text.replace('&', \"&amp;\")\n        .replace('<', \"&lt;\")", "    text.replace('<', \"&lt;\")")], ["escape_html"])
M("C09-R2-html-amp-last", "C09", [(OH, "    text.replace('&', \"&amp;\")\n        .replace('<', \"&lt;\")\n        .replace('>', \"&gt;\")", "    text.replace('<', \"&lt;\")\n        .replace('>', \"&gt;\")\n        .replace('&', \"&amp;\")")], ["escape_html"])
M("C09-R2-json-map-not-cleared", "C09", [(OJ, "        self.file_map.clear();\n", "")], ["escape_json"])
M("C09-R3-json-footer", "C09", [(OJ, 'Some("]".to_owned())', 'Some("}".to_owned())')], ["framing_json"])
M("C09-R3-html-footer", "C09", [(OH, '"</table></body></html>"', '"</table></html>"')], ["framing_html"])
M("C09-R4-footer-conditional", "C09", [(S, "        self.results_writer.write_footer(&mut std::io::stdout())?;", "        if self.found > 0 {\n            self.results_writer.write_footer(&mut std::io::stdout())?;\n        }")], ["output_framing"])
M("C09-R5-list-newline", "C09", [(OF, "pub const LIST_FORMATTER: FlatWriter = FlatWriter {\n    record_separator: '\\0',\n    line_separator: Some('\\0'),", "pub const LIST_FORMATTER: FlatWriter = FlatWriter {\n    record_separator: '\\0',\n    line_separator: Some('\\n'),")], ["flat_LIST"])
M("C09-R5-flat-separator-after-last", "C09", [(OF, "            true => Some(record.to_string()),", "            true => Some(format!(\"{}{}\", record, self.record_separator)),")], ["flat_format_element"])
M("C09-R5-flat-row-end-dropped", "C09", [(OF, "        self.line_separator.map(String::from)", "        None")], ["flat_row_ended"])
M("C09-R5-is-last-off", "C09", [(OM, "pos == len - 1", "pos == len")], ["write_row"])
M("C09-R5-csv-selects-json", "C09", [(OM, "OutputFormat::Csv => Box::<CsvFormatter>::default(),", "OutputFormat::Csv => Box::<JsonFormatter>::default(),")], ["select_formatter"])

# ---------------------------------------------------------------- C08
M("C08-R1-skip-empty-key", "C08", [(S, "                .collect();\n            if result.contains_key(&key) {", "                .collect();\n            if key.iter().all(|k| k.is_empty()) {\n                return;\n            }\n            if result.contains_key(&key) {")], ["partition_"])
M("C08-R1-new-key-empty-partition", "C08", [(S, "result.insert(key, vec![item.clone()]);", "result.insert(key, vec![]);")], ["partition_"])
M("C08-R2-key-first-field-only", "C08", [(S, "            let key: Vec<String> = group_fields\n                .iter()\n                .map(", "            let key: Vec<String> = group_fields\n                .iter()\n                .take(1)\n                .map(")], ["partition_key"])
M("C08-R3-aggregate-over-whole-buffer", "C08", [(S, "                                &mut file_map,\n                                Some(f.1),\n                                column_expr", "                                &mut file_map,\n                                None,\n                                column_expr")], ["groups_aggregate-scope"])
M("C08-R3-direction-ignored", "C08", [(S, "                                                return if directions[idx] { \n                                                    a.cmp(&b) \n                                                } else { \n                                                    b.cmp(&a) \n                                                };", "                                                return if directions[idx] { \n                                                    a.cmp(&b) \n                                                } else { \n                                                    a.cmp(&b) \n                                                };")], ["groups_ordering-direction"])

# ---------------------------------------------------------------- C19
FINFO, FLD = "src/fileinfo.rs", "src/field.rs"
M("C19-R1-range-from-1", "C19", [(S, "for i in 0..archive.len() {", "for i in 1..archive.len() {")], ["members_range"])
M("C19-R1-members-unwrap", "C19", [(S, "if let Ok(afile) = archive.by_index(i) {\n                                                        let file_info = to_file_info(&afile);", "{\n                                                        let afile = archive.by_index(i).unwrap();\n                                                        let file_info = to_file_info(&afile);")], ["members_guards"])
M("C19-R1-members-only-files", "C19", [(S, "                                                    if let Ok(afile) = archive.by_index(i) {\n", "                                                    if let Ok(afile) = archive.by_index(i) {\n                                                        if afile.is_dir() {\n                                                            continue;\n                                                        }\n")], ["members_exit"])
M("C19-R2-compressed-size", "C19", [(FINFO, "size: zipped_file.size(),", "size: zipped_file.compressed_size(),")], ["file-info_size"])
M("C19-R3-uid-available", "C19", [(FLD, "            Field::Name\n                | Field::Extension\n                | Field::Path\n                | Field::AbsPath", "            Field::Name\n                | Field::Uid\n                | Field::Extension\n                | Field::Path\n                | Field::AbsPath")], ["availability_Uid"])
M("C19-R3-label-order", "C19", [(S, "                        \"[{}] {}\",\n                        entry.file_name().to_string_lossy(),\n                        file_info.name\n                    ));\n                }\n                _ => {\n                    return Variant::from_string(&format!(\n                        \"{}\",", "                        \"[{}] {}\",\n                        file_info.name,\n                        entry.file_name().to_string_lossy()\n                    ));\n                }\n                _ => {\n                    return Variant::from_string(&format!(\n                        \"{}\",")], ["member-label_Name"])
M("C19-R3-early-return-inverted", "C19", [(S, "if file_info.is_some() && !field.is_available_for_archived_files() {", "if file_info.is_some() && field.is_available_for_archived_files() {")], ["availability_early-return"])

# ---------------------------------------------------------------- C20
DK, HG = "src/ignore/docker.rs", "src/ignore/hg.rs"
M("C20-R1-hg-from-git-config", "C20", [(S, ".unwrap_or(self.config.hgignore.unwrap_or(false));", ".unwrap_or(self.config.gitignore.unwrap_or(false));")], ["precedence_hgignore"])
M("C20-R1-config-wins", "C20", [(S, "            let apply_dockerignore = root\n                .options\n                .dockerignore\n                .unwrap_or(self.config.dockerignore.unwrap_or(false));", "            let apply_dockerignore = self\n                .config\n                .dockerignore\n                .unwrap_or(root.options.dockerignore.unwrap_or(false));")], ["precedence_dockerignore"])
M("C20-R2-descent-outside-gate", "C20", [(S, "                                    }\n                                }\n\n                                // Recursively visit subdirectories if we're not too deep\n                                if max_depth == 0 || depth < max_depth {", "                                    }\n                                }\n                            }\n                            {\n\n                                // Recursively visit subdirectories if we're not too deep\n                                if max_depth == 0 || depth < max_depth {")], ["ignored_"])
M("C20-R2-verdict-or", "C20", [(S, "pass_gitignore && pass_hgignore && pass_dockerignore", "pass_gitignore && (pass_hgignore || pass_dockerignore)")], ["ignored_formula"])
M("C20-R2-hg-not-negated", "C20", [(S, "                                let pass_hgignore = !apply_hgignore\n                                    || !matches_hgignore_filter(", "                                let pass_hgignore = !apply_hgignore\n                                    || matches_hgignore_filter(")], ["ignored_formula"])
M("C20-R3-docker-path-raw", "C20", [(DK, "pattern = regex::escape(&path).add", "pattern = path.clone().add")], ["path-unescaped"])
M("C20-R3-docker-star-crosses-dirs", "C20", [(DK, '"*" => "[^/]*",', '"*" => ".*",')], ["glob-table_convert_dockerignore_glob"])
M("C20-R4-docker-negation-ignored", "C20", [(DK, "        if is_match && dockerignore_filter.negate {\n            return false;\n        }\n", "")], ["verdict_docker-negation"])
M("C20-R4-hg-syntax-swapped", "C20", [(HG, 'if s == "regexp" {\n            return Ok(Syntax::Regexp);', 'if s == "regexp" {\n            return Ok(Syntax::Glob);')], ["verdict_hg-syntax"])

# ---------------------------------------------------------------- C10
MA = "src/main.rs"
M("C10-R1-filesize-guard-dropped", "C10", [(U, 'if length > 2 && string.ends_with("kb") {', 'if string.ends_with("kb") {')], ["parse_filesize"])
M("C10-R1-next-lexem-index", "C10", [(P, "let lexem = self.lexems.get(self.index);\n        self.index += 1;\n\n        lexem.cloned()", "let lexem = self.lexems[self.index].clone();\n        self.index += 1;\n\n        Some(lexem)")], ["next_lexem"])
M("C10-R1-limit-unwrap", "C10", [(P, "                        if let Ok(limit) = s.parse() {\n                            return Ok(limit);\n                        } else {\n                            return Err(\"Error parsing limit\");\n                        }", "                        return Ok(s.parse().unwrap());")], ["parse_limit"])
M("C10-R1-canonical-unwrap", "C10", [(S, "        if canonical_path.is_err() {\n            self.error_count += 1;", "        if false {\n            self.error_count += 1;")], ["visit_dir"])
M("C10-R1-cache-index-unguarded", "C10", [(S, "if file_map.contains_key(&column_expr_str) {\n            return Variant::from_string(&file_map[&column_expr_str]);\n        }", "if !column_expr_str.is_empty() {\n            return Variant::from_string(&file_map[&column_expr_str]);\n        }")], ["get_column_expr_value"])
M("C10-R1-order-by-index-again", "C10", [(P, "Ok(idx) => match idx.checked_sub(1).and_then(|i| fields.get(i)) {\n                                    Some(field) => field.clone(),\n                                    None => {\n                                        return Err(String::from(\n                                            \"Error parsing ORDER BY, no such column position\",\n                                        ))\n                                    }\n                                },", "Ok(idx) => fields[idx - 1].clone(),")], ["parse_order_by"])
M("C10-R1-bool-expect-again", "C10", [(F, "            match str_to_bool(&self.string_value) {\n                Some(value) => value,\n                None => error_exit(\"Can't parse boolean value\", &self.string_value),\n            }", "            str_to_bool(&self.string_value).unwrap()")], ["to_bool"])
M("C10-R1-rand-guard-dropped", "C10", [(F, "                        if val <= 0 {\n                            error_exit(\n                                \"Upper limit of RANDOM function must be positive\",\n                                function_arg.as_str(),\n                            );\n                        }\n", "")], ["random_range"])
M("C10-R1-caps-len-guard", "C10", [(CAPS, "if caps.len() < 12 {\n        return String::new();\n    }", "if caps.len() < 8 {\n        return String::new();\n    }")], ["parse_capabilities"])
M("C10-R3-errors-status-0", "C10", [(MA, "                0 => 0,\n                _ => 1,", "                0 => 0,\n                _ => 0,")], ["status_error-count"])
M("C10-R3-error-exit-1", "C10", [(U, "std::process::exit(2);", "std::process::exit(1);")], ["status_error_exit"])
M("C10-R3-parse-error-status-1", "C10", [(MA, "            error_message(\"query\", &err);\n            2", "            error_message(\"query\", &err);\n            1")], ["status_parse-error"])
M("C10-R5-cond-returns-none", "C10", [(P, "            _ => {\n                self.drop_lexem();\n                Ok(left)\n            }\n        };\n\n        if let Ok(Some(expr)) = result.clone() {", "            _ => {\n                self.drop_lexem();\n                if negate { Ok(None) } else { Ok(left) }\n            }\n        };\n\n        if let Ok(Some(expr)) = result.clone() {")], ["grammar_ok-none"])
M("C10-V-guarded-unwrap-added", "C10", [(S, "        let limit = query.limit;\n", "        let limit = query.limit;\n        let first_root = query.roots.first();\n        if first_root.is_some() {\n            let _ = first_root.unwrap();\n        }\n")], kind="variant")

# ---------------------------------------------------------------- C17
M("C17-R1-readdir-error-not-counted", "C17", [(S, "            Err(err) => {\n                self.error_count += 1;\n                path_error_message(dir, err);\n            }\n        }\n\n        if traversal_mode == Bfs", "            Err(err) => {\n                path_error_message(dir, err);\n            }\n        }\n\n        if traversal_mode == Bfs")], ["error-arm_visit_dir"])
M("C17-R1-entry-error-breaks", "C17", [(S, "                        Err(err) => {\n                            self.error_count += 1;\n                            path_error_message(dir, err);\n                        }", "                        Err(err) => {\n                            self.error_count += 1;\n                            path_error_message(dir, err);\n                            break;\n                        }")], ["error-arm_visit_dir"])
M("C17-R1-filetype-question-mark", "C17", [(S, "                                    let result = entry.file_type();\n                                    if let Ok(file_type) = result {", "                                    let result: io::Result<FileType> = Ok(entry.file_type()?);\n                                    if let Ok(file_type) = result {")], ["question-mark"])
M("C17-R3-linecount-unwrap", "C17", [(U, "    if let Ok(file) = File::open(entry.path()) {\n        let mut reader = BufReader::with_capacity(1024 * 32, file);", "    {\n        let file = File::open(entry.path()).unwrap();\n        let mut reader = BufReader::with_capacity(1024 * 32, file);")], ["reader-panic"])
M("C17-R3-sha1-fallback", "C17", [(U, "            let hash = hasher.finalize();\n            return format!(\"{:x}\", hash);\n        }\n    }\n\n    String::new()\n}\n\npub fn get_sha256_file_hash", "            let hash = hasher.finalize();\n            return format!(\"{:x}\", hash);\n        }\n    }\n\n    String::from(\"error\")\n}\n\npub fn get_sha256_file_hash")], ["reader_fallback_get_sha1"])
M("C17-R4-println-in-check-file", "C17", [(S, "        } else if let Err(e) = write!(std::io::stdout(), \"{}\", String::from(buf)) {\n            if e.kind() == ErrorKind::BrokenPipe {\n                return Ok(false);\n            }\n        }", "        } else {\n            print!(\"{}\", String::from(buf));\n        }")], ["stdout_"])
M("C17-R4-pipe-not-stopping", "C17", [(S, "            if e.kind() == ErrorKind::BrokenPipe {\n                return Ok(false);\n            }", "            if e.kind() == ErrorKind::BrokenPipe {\n                self.error_count += 0;\n            }")], ["stdout_"])
M("C17-R4-exec-search-unwrap", "C17", [(MA, "            if let Err(err) = searcher.list_search_results() {\n                if err.kind() != std::io::ErrorKind::BrokenPipe {\n                    error_message(\"search\", &err.to_string());\n                    return 1;\n                }\n            }", "            searcher.list_search_results().unwrap();")], ["stdout_exec_search"])

# ---------------------------------------------------------------- C18
M("C18-R1-raw-read-link", "C18", [(S, "if let Ok(resolved) = fs::canonicalize(&path) {", "if let Ok(resolved) = fs::read_link(&path) {")], ["follow_target-resolution"])
M("C18-R1-no-dir-test", "C18", [(S, "                                                if resolved.is_dir() {\n                                                    ok = true;\n                                                    path = resolved;\n                                                }", "                                                {\n                                                    ok = true;\n                                                    path = resolved;\n                                                }")], ["follow_only-directories"])
M("C18-R3-visited-by-given-path", "C18", [(S, "&& !self.visited_dirs.insert(PathBuf::from(&canonical_path))", "&& !self.visited_dirs.insert(dir.to_path_buf())")], ["visited_canonical-key"])
M("C18-R3-visited-check-removed", "C18", [(S, "        if self.current_follow_symlinks\n            && !self.visited_dirs.insert(PathBuf::from(&canonical_path))\n        {\n            return Ok(());\n        }\n", "        self.visited_dirs.insert(PathBuf::from(&canonical_path));\n")], ["visited_before-listing"])
M("C18-R4-depth-checked-sub", "C18", [(S, "canonical_depth.saturating_sub(base_depth) + 1", "canonical_depth - base_depth + 1")], ["depth_underflow"])

# ---------------------------------------------------------------- C10-R2 (cursor analysis T)
M("C10-R2-fields-swallow-error", "C10", [(P, "                            if let Some(field) = self.parse_expr()? {\n                                fields.push(field);\n                            }\n                        }\n                    }\n                }\n                Some(Lexem::Open)", "                            if let Ok(Some(field)) = self.parse_expr() {\n                                fields.push(field);\n                            }\n                        }\n                    }\n                }\n                Some(Lexem::Open)")], ["progress_parse_fields"])
M("C10-R2-roots-comma-no-break", "C10", [(P, "                            } else {\n                                self.drop_lexem();\n                                break;\n                            }\n                        }\n                        _ => {\n                            if !path.is_empty() {", "                            } else {\n                                self.drop_lexem();\n                            }\n                        }\n                        _ => {\n                            if !path.is_empty() {")], ["progress_parse_roots"])
M("C10-R2-double-drop", "C10", [(P, "            _ => {\n                self.drop_lexem();\n                Ok(None)\n            }\n        }\n    }\n\n    fn parse_expr", "            _ => {\n                self.drop_lexem();\n                self.drop_lexem();\n                Ok(None)\n            }\n        }\n    }\n\n    fn parse_expr")], ["cursor_underflow", "drop_lexem"])
M("C10-R2-group-by-no-progress", "C10", [(P, "                            Some(Lexem::RawString(_)) => {\n                                self.drop_lexem();\n                                match self.parse_expr()? {\n                                    Some(group_field) => group_by_fields.push(group_field),", "                            Some(Lexem::RawString(_)) => {\n                                self.drop_lexem();\n                                match self.parse_expr().unwrap_or(None) {\n                                    Some(group_field) => group_by_fields.push(group_field),")], ["progress_parse_group_by", "panic"])
M("C10-R2-paren-recursion", "C10", [(P, "            Some(Lexem::Open) => {\n                let result = self.parse_expr();\n                if let Some(Lexem::Close) = self.next_lexem() {", "            Some(Lexem::Open) => {\n                self.drop_lexem();\n                let result = self.parse_expr();\n                if let Some(Lexem::Close) = self.next_lexem() {")], ["recursion_", "progress_"])
M("C10-R2-lexer-operator-no-advance", "C10", [(L, "                    if !self.is_op_char(c) {\n                        break;\n                    }\n\n                    self.char_index += 1;\n                    s.push(c);", "                    if !self.is_op_char(c) {\n                        break;\n                    }\n\n                    s.push(c);")], ["progress_lexer"])
M("C10-R2-lexer-next-part-no-advance", "C10", [(L, "                    self.input_index += 1;\n                    self.char_index = -1;\n                    self.possible_search_root = false;\n                    continue;", "                    self.char_index = -1;\n                    self.possible_search_root = false;\n                    continue;")], ["progress_lexer"])

# ---------------------------------------------------------------- second-line rules (extra.py), interpreter-based rules
E_ = "src/expr.rs"
WB = "src/util/wbuf.rs"
M("X-VARIANT-bool-text", "C16", [(F, '                true => String::from("true"),\n                _ => String::from("false"),', '                true => String::from("1"),\n                _ => String::from("0"),')], ["variant_from_bool_text"])
M("X-VARIANT-toint-float-first", "C02", [(F, "        match self.int_value {\n            Some(i) => i,\n            None => {", "        match self.int_value.filter(|_| self.float_value.is_none()) {\n            Some(i) => i,\n            None => {")], ["variant_to_int", "coercion_to_int"])
M("X-VARIANT-int-float-slot", "C15", [(F, "float_value: Some(value as f64),", "float_value: None,")], ["variant_from_int_float_value"])
M("X-ROOTS-maxdepth-default", "C01", [(Q, "            min_depth: 0,\n            max_depth: 0,\n            archives: false,\n            symlinks: false,\n            gitignore: None,", "            min_depth: 0,\n            max_depth: 1,\n            archives: false,\n            symlinks: false,\n            gitignore: None,")], ["root-defaults_"])
M("X-ROOTS-options-leak-to-next-root", "C18", [(P, "                                roots.push(Root::new(path, root_options));\n\n                                path = String::from(\"\");\n                                root_options = RootOptions::new();\n", "                                roots.push(Root::new(path, root_options.clone()));\n\n                                path = String::from(\"\");\n")], ["root-defaults_parse_roots"])
M("X-ROOTS-V-push-helper", "C18", [(P, "                                roots.push(Root::new(path, root_options));\n\n                                path = String::from(\"\");\n                                root_options = RootOptions::new();\n", "                                let finished = Root::new(std::mem::take(&mut path), std::mem::replace(&mut root_options, RootOptions::new()));\n                                roots.push(finished);\n")], kind="variant")
M("X-ROOTS-symlinks-default", "C11", [(Q, "            archives: false,\n            symlinks: false,\n            gitignore: None,\n            hgignore: None,\n            dockerignore: None,\n            traversal: Bfs,", "            archives: false,\n            symlinks: true,\n            gitignore: None,\n            hgignore: None,\n            dockerignore: None,\n            traversal: Bfs,")], ["root-defaults_"])
M("X-BUFFER-and", "C06", [(S, "self.has_ordering() || self.has_aggregate_column()", "self.has_ordering() && self.has_aggregate_column()")], ["buffering_is_buffered"])
M("X-BUFFER-args-not-visited", "C07", [("src/expr.rs", """        if let Some(ref args) = self.args {
            for arg in args {
                if arg.has_aggregate_function() {
                    return true;
                }
            }
        }

        false""", """        false""")], ["buffering_has_aggregate_function"])
M("X-BUFFER-right-not-required", "C07", [("src/expr.rs", """        if let Some(ref right) = self.right {
            result.extend(right.get_required_fields());
        }""", "")], ["buffering_get_required_fields"])
M("X-BUFFER-or-reordered", "C06", [(S, "self.has_ordering() || self.has_aggregate_column()", "self.has_aggregate_column() || self.has_ordering()")], kind="variant")
M("X-COLOR-or", "C09", [(MA, "let use_colors = !no_color && is_terminal;", "let use_colors = !no_color || is_terminal;")], ["colors_terminal"])
M("X-LEXCLASS-mul-after-operator", "C15", [(L, "(self.before_from || self.after_where) && !self.after_open && !self.after_operator", "(self.before_from || self.after_where) && !self.after_open")], ["lexer_arith-context"])
M("X-LEXCLASS-plus-only-select", "C15", [(L, "'+' | '-' => self.before_from || self.after_where,", "'+' | '-' => self.before_from,")], ["lexer_arith-context"])
M("X-LEXCLASS-demorgan", "C15", [(L, "(self.before_from || self.after_where) && !self.after_open && !self.after_operator", "(self.before_from || self.after_where) && !(self.after_open || self.after_operator)")], kind="variant")
M("X-LEXCLASS-search-root-after-where", "C11", [(L, "(matches!(lexem, Some(Lexem::Comma)) && !self.before_from && !self.after_where)", "(matches!(lexem, Some(Lexem::Comma)) && !self.before_from)")], ["possible_search_root"])
M("X-LEXCLASS-search-root-rewritten", "C11", [(L, "(matches!(lexem, Some(Lexem::Comma)) && !self.before_from && !self.after_where)", "(lexem == Some(Lexem::Comma) && !(self.before_from || self.after_where))")], kind="variant")
M("X-PHASES-shorthand-window-field", "C02", [("src/parser.rs", """                    && field.is_boolean_field()
                    && self.roots_parsed
                    && !self.where_parsed""", """                    && field.is_boolean_field()
                    && self.roots_parsed""")], ["phases_shorthand-window"])
M("X-PHASES-roots-flag-early", "C02", [(P, "        let fields = self.parse_fields()?;", "        self.roots_parsed = true;\n        let fields = self.parse_fields()?;"), (P, "        let root_options = self.parse_root_options();\n        self.roots_parsed = true;", "        let root_options = self.parse_root_options();")], ["phases_parse_fields-before-roots_parsed"])
M("X-PHASES-where-flag-late", "C08", [(P, "        self.where_parsed = true;\n        let grouping_fields = self.parse_group_by()?;", "        let grouping_fields = self.parse_group_by()?;\n        self.where_parsed = true;")], ["phases_where_parsed-before-parse_group_by"])
M("X-LITERAL-both-removed", "C02", [(S, "        if column_expr.function.is_none() && column_expr.field.is_none() && column_expr.left.is_none() {\n            if let Some(ref value) = column_expr.val {\n                return Variant::from_signed_string(value, column_expr.minus);\n            }\n        }\n", ""), (E_, "            if val == \"*\" || val.parse::<f64>().is_ok() {\n                fmt.write_str(val)?;\n            } else {\n                write!(fmt, \"'{}'\", val)?;\n            }", "            fmt.write_str(val)?;")], ["literal-before-memo"])
M("X-LITERAL-V-bypass-removed", "C02", [(S, "        if column_expr.function.is_none() && column_expr.field.is_none() && column_expr.left.is_none() {\n            if let Some(ref value) = column_expr.val {\n                return Variant::from_signed_string(value, column_expr.minus);\n            }\n        }\n", "")], kind="variant")
M("X-LITERAL-both-removed-c09", "C09", [(S, "        if column_expr.function.is_none() && column_expr.field.is_none() && column_expr.left.is_none() {\n            if let Some(ref value) = column_expr.val {\n                return Variant::from_signed_string(value, column_expr.minus);\n            }\n        }\n", ""), (E_, "            if val == \"*\" || val.parse::<f64>().is_ok() {\n                fmt.write_str(val)?;\n            } else {\n                write!(fmt, \"'{}'\", val)?;\n            }", "            fmt.write_str(val)?;")], ["literal-before-memo"])
M("X-LITERAL-V-quotes-removed-c09", "C09", [(E_, "            if val == \"*\" || val.parse::<f64>().is_ok() {\n                fmt.write_str(val)?;\n            } else {\n                write!(fmt, \"'{}'\", val)?;\n            }", "            fmt.write_str(val)?;")], kind="variant")
M("X-LITERAL-memo-guarded", "C02", [(S, "        if column_expr.function.is_none() && column_expr.field.is_none() && column_expr.left.is_none() {\n            if let Some(ref value) = column_expr.val {\n                return Variant::from_signed_string(value, column_expr.minus);\n            }\n        }\n", ""),
                                     (S, "        if file_map.contains_key(&column_expr_str) {", "        if column_expr.val.is_none() && file_map.contains_key(&column_expr_str) {")], kind="variant")
M("X-WBUF-validates-chunk", "C09", [(WB, "        self.buf.extend_from_slice(buf);\n        Ok(buf.len())", "        if std::str::from_utf8(buf).is_err() {\n            return Err(io::ErrorKind::InvalidInput.into());\n        }\n        self.buf.extend_from_slice(buf);\n        Ok(buf.len())")], ["wbuf_rejects"])
M("X-WBUF-half-chunk", "C09", [(WB, "        self.buf.extend_from_slice(buf);\n        Ok(buf.len())", "        self.buf.extend_from_slice(buf);\n        Ok(buf.len() / 2)")], ["wbuf_partial"])
M("X-DATEALIKE-month-exclusive", "C13", [(L, "(1..=12).contains(&month)", "(1..12).contains(&month)")], ["date-alike-ranges"])
# (was a variant until seed C15-k showed what a wider range costs: `1950-size` stops being a subtraction)
M("X-DATEALIKE-years-wider", "C13", [(L, "(1970..3000).contains(&year)", "(1900..3000).contains(&year)")], ["number-minus"])
M("C03-R2-descend-filtered", "C03", [(P, "        if let Some(right) = &expr.right {\n            result.right = Some(Box::from(Self::negate_expr_op(right)));", "        if let Some(right) = expr.right.as_ref().filter(|e| e.op.is_some()) {\n            result.right = Some(Box::from(Self::negate_expr_op(right)));")], ["de-morgan"])
M("C03-V-descend-match", "C03", [(P, "        if let Some(left) = &expr.left {\n            result.left = Some(Box::from(Self::negate_expr_op(left)));\n        }", "        match &expr.left {\n            Some(left) => {\n                result.left = Some(Box::from(Self::negate_expr_op(left)));\n            }\n            None => {}\n        }")], kind="variant")
M("C03-V-descend-map", "C03", [(P, "        if let Some(left) = &expr.left {\n            result.left = Some(Box::from(Self::negate_expr_op(left)));\n        }", "        result.left = expr.left.as_ref().map(|left| Box::from(Self::negate_expr_op(left)));")], kind="variant")
M("C05-R3-key-deduplicated", "C05", [(P, "                            order_by_fields.push(actual_field);\n                            order_by_directions.push(true);", "                            if !order_by_fields.contains(&actual_field) {\n                                order_by_fields.push(actual_field);\n                                order_by_directions.push(true);\n                            }")], ["every-key-kept"])
M("C07-R3-argument-not-evaluated", "C07", [(S, "            let _ = self.get_column_expr_value(entry, file_info, file_map, buffer_data, left_expr);\n", "")], ["argument-materialised"])
M("C07-V-argument-named", "C07", [(S, "            let _ = self.get_column_expr_value(entry, file_info, file_map, buffer_data, left_expr);\n", "            let _argument = self.get_column_expr_value(entry, file_info, file_map, buffer_data, left_expr);\n")], kind="variant")
M("C14-R5-kb-after-short", "C14", [(U, 'let mut result = humansize::format_size(size, format_options).replace("kB", "KB");', 'let mut result = humansize::format_size(size, format_options);'), (U, '            .replace("EB", "E");\n    }\n\n    result\n', '            .replace("EB", "E");\n    }\n\n    result.replace("kB", "KB")\n')], ["format-suffix_short_kB"])
M("C14-R5-ib-dropped-late", "C14", [(U, '            .replace("iB", "")\n            .replace("KB", "K")', '            .replace("KB", "K")'), (U, '            .replace("EB", "E");', '            .replace("EB", "E")\n            .replace("iB", "");')], kind="variant")
M("C14-R5-mb-missing", "C14", [(U, '            .replace("MB", "M")\n', '')], ["format-suffix_short_MB"])
M("C15-V-right-operand-precedence-brackets", "C15", [(E_, "            Self::fmt_operand(right, fmt)?;", "            Self::fmt_operand_in(right, &self.arithmetic_op, fmt)?;"),
                                           (E_, "    fn fmt_operand(operand: &Expr, fmt: &mut Formatter) -> fmt::Result {", "    fn fmt_operand_in(operand: &Expr, outer: &Option<ArithmeticOp>, fmt: &mut Formatter) -> fmt::Result {\n        let additive = |op: &ArithmeticOp| matches!(op, ArithmeticOp::Add | ArithmeticOp::Subtract);\n        let in_brackets = match (&operand.arithmetic_op, outer) {\n            (Some(inner), Some(outer)) => additive(inner) && !additive(outer),\n            (Some(_), None) => true,\n            _ => false,\n        };\n        if in_brackets {\n            write!(fmt, \"({})\", operand)\n        } else {\n            write!(fmt, \"{}\", operand)\n        }\n    }\n\n    fn fmt_operand(operand: &Expr, fmt: &mut Formatter) -> fmt::Result {")], kind="variant")   # left operands stay bracketed: no two trees share a text, harmless
M("C15-R6-both-operands-precedence-brackets", "C15", [(E_, "            Self::fmt_operand(left, fmt)?;", "            Self::fmt_operand_in(left, &self.arithmetic_op, fmt)?;"), (E_, "            Self::fmt_operand(right, fmt)?;", "            Self::fmt_operand_in(right, &self.arithmetic_op, fmt)?;"),
                                           (E_, "    fn fmt_operand(operand: &Expr, fmt: &mut Formatter) -> fmt::Result {", "    fn fmt_operand_in(operand: &Expr, outer: &Option<ArithmeticOp>, fmt: &mut Formatter) -> fmt::Result {\n        let additive = |op: &ArithmeticOp| matches!(op, ArithmeticOp::Add | ArithmeticOp::Subtract);\n        let in_brackets = match (&operand.arithmetic_op, outer) {\n            (Some(inner), Some(outer)) => additive(inner) && !additive(outer),\n            (Some(_), None) => true,\n            _ => false,\n        };\n        if in_brackets {\n            write!(fmt, \"({})\", operand)\n        } else {\n            write!(fmt, \"{}\", operand)\n        }\n    }\n\n    #[allow(dead_code)]\n    fn fmt_operand(operand: &Expr, fmt: &mut Formatter) -> fmt::Result {")], ["brackets_"])
M("C15-V-minimal-brackets-right", "C15", [(E_, "            Self::fmt_operand(left, fmt)?;", "            Self::fmt_operand_in(left, &self.arithmetic_op, false, fmt)?;"), (E_, "            Self::fmt_operand(right, fmt)?;", "            Self::fmt_operand_in(right, &self.arithmetic_op, true, fmt)?;"),
                                         (E_, "    fn fmt_operand(operand: &Expr, fmt: &mut Formatter) -> fmt::Result {", "    fn fmt_operand_in(operand: &Expr, outer: &Option<ArithmeticOp>, right: bool, fmt: &mut Formatter) -> fmt::Result {\n        let additive = |op: &ArithmeticOp| matches!(op, ArithmeticOp::Add | ArithmeticOp::Subtract);\n        let in_brackets = match (&operand.arithmetic_op, outer) {\n            (Some(inner), Some(outer)) => (additive(inner) && !additive(outer)) || (right && additive(inner) == additive(outer)),\n            (Some(_), None) => true,\n            _ => false,\n        };\n        if in_brackets {\n            write!(fmt, \"({})\", operand)\n        } else {\n            write!(fmt, \"{}\", operand)\n        }\n    }\n\n    #[allow(dead_code)]\n    fn fmt_operand(operand: &Expr, fmt: &mut Formatter) -> fmt::Result {")], kind="variant")
M("C01-R7-continue-after-archive", "C01", [(S, "                                        }\n                                    }\n                                }\n\n                                // Recursively visit subdirectories if we're not too deep", "                                        }\n                                        continue;\n                                    }\n                                }\n\n                                // Recursively visit subdirectories if we're not too deep")], ["early-exit_continue"])
M("C04-R4-update-keeps-old", "C17", [(S, "            self.line_count = get_line_count(entry);", "            if let Some(n) = get_line_count(entry) {\n                self.line_count = Some(n);\n            }")], ["memo_update_line_count"])
M("C15-R7-literal-bare", "C15", [(E_, "            if val == \"*\" || val.parse::<f64>().is_ok() {\n                fmt.write_str(val)?;\n            } else {\n                write!(fmt, \"'{}'\", val)?;\n            }", "            fmt.write_str(val)?;")], ["key_literal-bare"])
M("C15-R7-literal-bare-when-short", "C15", [(E_, "            if val == \"*\" || val.parse::<f64>().is_ok() {", "            if val == \"*\" || val.len() < 3 || val.parse::<f64>().is_ok() {")], ["key_literal-bare"])
M("C15-V-literal-double-quotes", "C15", [(E_, "                write!(fmt, \"'{}'\", val)?;", "                write!(fmt, \"\\\"{}\\\"\", val)?;")], kind="variant")
M("C15-V-literal-always-quoted", "C15", [(E_, "            if val == \"*\" || val.parse::<f64>().is_ok() {\n                fmt.write_str(val)?;\n            } else {\n                write!(fmt, \"'{}'\", val)?;\n            }", "            write!(fmt, \"'{}'\", val)?;")], kind="variant")

# ---------------------------------------------------------------- variants pinning the rules of the fifth / sixth seed waves (must stay silent)
M("X-LEXEMS-V-if-let-continue", "C14", [(P, """            match lexem {
                Lexem::String(s) if s.is_empty() => {}
                _ => self.lexems.push(lexem) 
            }            """, """            if let Lexem::String(ref s) = lexem {
                if s.is_empty() {
                    continue;
                }
            }
            self.lexems.push(lexem);""")], kind="variant")
M("C19-R5-V-built-from-parts", "C19", [("src/util/datetime.rs", """    Local::now()
        .naive_local()
        .with_year(dt.year() as i32)
        .unwrap()
        .with_month(dt.month() as u32)
        .unwrap()
        .with_day(dt.day() as u32)
        .unwrap()
        .with_hour(dt.hour() as u32)
        .unwrap()
        .with_minute(dt.minute() as u32)
        .unwrap()
        .with_second(dt.second() as u32)
        .unwrap()""", """    let stored_day = Local::now().naive_local().with_year(dt.year() as i32).unwrap().with_month(dt.month() as u32).unwrap().with_day(dt.day() as u32).unwrap();
    let stored_hour = stored_day.with_hour(dt.hour() as u32).unwrap();
    stored_hour.with_minute(dt.minute() as u32).unwrap().with_second(dt.second() as u32).unwrap()""")], kind="variant")
M("C04-R3-V-open-match", "C04", [(U, """pub fn is_shebang(path: &PathBuf) -> bool {
    if let Ok(file) = File::open(path) {""", """pub fn is_shebang(path: &PathBuf) -> bool {
    let opened = File::open(path);
    if let Ok(file) = opened {""")], kind="variant")
M("X-VARIANT-V-with-sign-zero-minus", "C15", [(F, "VariantType::Float => Variant::from_float(-self.to_float()),", "VariantType::Float => Variant::from_float(0.0 - self.to_float()),")], kind="variant")
M("C18-R3-V-contains-then-insert", "C18", [(S, """        if self.current_follow_symlinks
            && !self.visited_dirs.insert(PathBuf::from(&canonical_path))
        {
            return Ok(());
        }""", """        if self.current_follow_symlinks {
            let key = PathBuf::from(&canonical_path);
            if self.visited_dirs.contains(&key) {
                return Ok(());
            }
            self.visited_dirs.insert(key);
        }""")], kind="variant")
M("C01-R8-V-root-loop-locals", "C01", [(S, """            let _result = self.visit_dir(
                root_dir,
                min_depth,
                max_depth,
                0,""", """            let top_level = 0;
            let _result = self.visit_dir(
                root_dir,
                min_depth,
                max_depth,
                top_level,""")], kind="variant")
M("C07-R6-V-flat-map-result", "C07", [(F, "                .filter_map(|value| value.parse::<i64>().ok()) // Parse the value and filter out errors\n                .min()", "                .flat_map(|value| value.parse::<i64>()) // Parse the value and filter out errors\n                .min()")], kind="variant")
M("X-WBUF-V-write-all", "C09", [(S, """        } else if let Err(e) = write!(std::io::stdout(), "{}", String::from(buf)) {
            if e.kind() == ErrorKind::BrokenPipe {
                return Ok(false);
            }
        }""", """        } else if let Err(e) = std::io::stdout().write_all(String::from(buf).as_bytes()) {
            if e.kind() == ErrorKind::BrokenPipe {
                return Ok(false);
            }
        }""")], kind="variant")
M("X-WBUF-partial-write", "C09", [(S, """        } else if let Err(e) = write!(std::io::stdout(), "{}", String::from(buf)) {
            if e.kind() == ErrorKind::BrokenPipe {
                return Ok(false);
            }
        }""", """        } else if let Err(e) = std::io::stdout().write(String::from(buf).as_bytes()) {
            if e.kind() == ErrorKind::BrokenPipe {
                return Ok(false);
            }
        }""")], ["partial-write"])
M("C03-R6-V-negate-wraps-expansion", "C03", [(P, """        if negate {
            if let Ok(Some(expr)) = result {
                return Ok(Some(Self::negate_expr_op(&expr)));
            }
        }

        result""", """        match result {
            Ok(Some(expr)) if negate => Ok(Some(Self::negate_expr_op(&expr))),
            other => other,
        }""")], kind="variant")

# ---------------------------------------------------------------- variants pinning the rules of the seventh seed wave
M("C20-R3-V-anchor-admits-descendants", "C20", [("src/ignore/docker.rs", """    pattern = regex::escape(&path).add("/([^/]+/)*").add(&pattern);""", """    pattern = regex::escape(&path).add("/([^/]+/)*").add(&pattern).add("(/|$)");""")], kind="variant")
M("C18-R3-V-insert-nested-if", "C18", [(S, """        if self.current_follow_symlinks
            && !self.visited_dirs.insert(PathBuf::from(&canonical_path))
        {
            return Ok(());
        }""", """        if self.current_follow_symlinks {
            let first_visit = self.visited_dirs.insert(PathBuf::from(&canonical_path));
            if !first_visit {
                return Ok(());
            }
        }""")], kind="variant")
M("X-BRACKETS-V-closing-by-mode", "C11", [(P, """                Some(lexem)
                    if (lexem == Lexem::Close && !curly_mode)
                        || (lexem == Lexem::CurlyClose && curly_mode) =>
                {""", """                Some(lexem)
                    if lexem == (if curly_mode { Lexem::CurlyClose } else { Lexem::Close }) =>
                {""")], kind="variant")
M("X-OPERANDS-V-named-fresh-map", "C14", [(S, """            let field_value = self.get_column_expr_value(
                Some(entry),
                file_info,
                &mut HashMap::new(),
                None,
                expr.left.as_ref().unwrap(),
            );""", """            let mut left_values = HashMap::new();
            let field_value = self.get_column_expr_value(
                Some(entry),
                file_info,
                &mut left_values,
                None,
                expr.left.as_ref().unwrap(),
            );""")], kind="variant")
M("C02-R3-V-op-from-two-arms", "C02", [(O, """"=" | "==" | "eq" => Some(Op::Eq),""", """"=" | "==" => Some(Op::Eq),
            "eq" => Some(Op::Eq),""")], kind="variant")
M("X-NAMES-column-alias-is-function", "C16", [("src/field.rs", """"mp3_year" => Ok(Field::Year),""", """"mp3_year" | "year" => Ok(Field::Year),""")], ["names_overlap"])

# ---------------------------------------------------------------- variants pinning the rules of the eighth seed wave
M("X-CANON-V-match-with-guard", "C18", [(U, """    match canonicalize(path_buf) {
        Ok(path) => Ok(format_absolute_path(&path)),
        Err(err) => match err.to_string().starts_with("Incorrect function.") {
            true => Ok(format_absolute_path(path_buf)),
            _ => Err(err.to_string()),
        },
    }""", """    match canonicalize(path_buf) {
        Ok(resolved) => Ok(format_absolute_path(&resolved)),
        Err(err) if err.to_string().starts_with("Incorrect function.") => Ok(format_absolute_path(path_buf)),
        Err(err) => Err(err.to_string()),
    }""")], kind="variant")
M("C20-R6-V-renamed-parameter", "C20", [("src/ignore/hg.rs", """fn update_hgignore_filters(hgignore_filters: &mut Vec<HgignoreFilter>, path: &Path) {
    let hgignore_file = path.join(".hgignore");
    if hgignore_file.is_file() {
        let mut regexes = parse_hgignore(&hgignore_file, &path);""", """fn update_hgignore_filters(hgignore_filters: &mut Vec<HgignoreFilter>, repo_dir: &Path) {
    let path = repo_dir;
    let ignore_file = repo_dir.join(".hgignore");
    let hgignore_file = ignore_file;
    if hgignore_file.is_file() {
        let mut regexes = parse_hgignore(&hgignore_file, repo_dir);""")], kind="variant")
M("X-CONFIG-default-first", "C04", [(S, """            self.config
                .is_audio
                .as_ref()
                .unwrap_or(self.default_config.is_audio.as_ref().unwrap()),""", """            self.default_config
                .is_audio
                .as_ref()
                .unwrap_or(self.config.is_audio.as_ref().unwrap()),""")], ["config-precedence"])

M("C06-R4-parse-limit-absent-eats-lexem", "C06", [(P, """            _ => {
                self.drop_lexem();
            }
        }

        Ok(0)
    }

    fn parse_output_format""", """            _ => {}
        }

        Ok(0)
    }

    fn parse_output_format""")], ["parse_limit"])

# ---------------------------------------------------------------- wave-h rules
M("C07-R2-V-sum-u64", "C07", [(F, "    let mut sum = 0;\n    for value in raw_output_buffer {\n        if let Some(value) = value.get(buffer_key) {\n            if let Ok(value) = value.parse::<usize>() {\n                sum += value;",
                                  "    let mut sum: u64 = 0;\n    for value in raw_output_buffer {\n        if let Some(value) = value.get(buffer_key) {\n            if let Ok(value) = value.parse::<u64>() {\n                sum += value;"),
                              (F, "    sum\n}\n\n#[cfg(test)]\nmod tests {", "    sum as usize\n}\n\n#[cfg(test)]\nmod tests {")], kind="variant")
M("C07-R2-min-as-float", "C07", [(F, ".filter_map(|value| value.parse::<i64>().ok()) // Parse the value and filter out errors\n                .min()\n                .unwrap_or(0); // If no items were found",
                                     ".filter_map(|value| value.parse::<f64>().ok()) // Parse the value and filter out errors\n                .min_by(|a, b| a.total_cmp(b))\n                .unwrap_or(0.0); // If no items were found")], ["primitive"])
M("C10-R3-status-narrowed-first", "C10", [("src/main.rs", "            match error_count {\n                0 => 0,\n                _ => 1,\n            }", "            (error_count as u8).min(1)")], ["status_error-count"])
M("C10-R3-V-status-if", "C10", [("src/main.rs", "            match error_count {\n                0 => 0,\n                _ => 1,\n            }", "            if error_count > 0 {\n                1\n            } else {\n                0\n            }")], kind="variant")
DK = "src/ignore/docker.rs"
M("C20-R4-docker-comments-kept", "C20", [(DK, "Ok(line) => !line.trim().is_empty() && !line.starts_with(\"#\"),", "Ok(line) => !line.trim().is_empty(),")], ["verdict_loader"])
M("C20-R4-docker-first-pattern-only", "C20", [(DK, "            .for_each(|line| {\n                if err.is_empty() {\n                    if let Ok(line) = line {\n                        let pattern = convert_dockerignore_pattern(&line, dir_path);",
                                                   "            .take(1)\n            .for_each(|line| {\n                if err.is_empty() {\n                    if let Ok(line) = line {\n                        let pattern = convert_dockerignore_pattern(&line, dir_path);")], ["verdict_loader"])
M("C20-R4-V-docker-loop", "C20", [(DK, """        reader
            .lines()
            .filter(|line| match line {
                Ok(line) => !line.trim().is_empty() && !line.starts_with("#"),
                _ => false,
            })
            .for_each(|line| {
                if err.is_empty() {
                    if let Ok(line) = line {
                        let pattern = convert_dockerignore_pattern(&line, dir_path);
                        match pattern {
                            Ok(pattern) => result.push(pattern),
                            Err(parse_err) => err = parse_err,
                        }
                    }
                }
            });""", """        for line in reader.lines() {
            let Ok(line) = line else { continue };
            if line.trim().is_empty() || line.starts_with("#") {
                continue;
            }
            if !err.is_empty() {
                continue;
            }
            match convert_dockerignore_pattern(&line, dir_path) {
                Ok(pattern) => result.push(pattern),
                Err(parse_err) => err = parse_err,
            }
        }""")], kind="variant")
OJ2 = "src/output/json.rs"
M("C09-R2-V-json-clear-after", "C09", [(OJ2, "        let result = serde_json::to_string(&self.file_map).unwrap();\n        self.file_map.clear();\n        Some(result)",
                                            "        let row = Some(serde_json::to_string(&self.file_map).unwrap());\n        self.file_map.clear();\n        row")], kind="variant")
M("C09-R2-json-trimmed", "C09", [(OJ2, "        Some(result)\n    }\n\n    fn footer", "        Some(result.replace(\"\\\\u\", \"u\"))\n    }\n\n    fn footer")], ["escape_json"])
M("X-EXPRWALK-V-full-walk", "C15", [("src/expr.rs", "    pub fn contains_numeric(&self) -> bool {", """    #[allow(dead_code)]
    pub fn depth(&self) -> usize {
        let mut d = 0;
        if let Some(ref left) = self.left {
            d = d.max(left.depth());
        }
        if let Some(ref right) = self.right {
            d = d.max(right.depth());
        }
        if let Some(ref args) = self.args {
            for arg in args {
                d = d.max(arg.depth());
            }
        }
        d + 1
    }

    pub fn contains_numeric(&self) -> bool {""")], kind="variant")
M("X-EXPRWALK-skips-args", "C15", [("src/expr.rs", "    pub fn contains_numeric(&self) -> bool {", """    #[allow(dead_code)]
    pub fn depth(&self) -> usize {
        let mut d = 0;
        if let Some(ref left) = self.left {
            d = d.max(left.depth());
        }
        if let Some(ref right) = self.right {
            d = d.max(right.depth());
        }
        d + 1
    }

    pub fn contains_numeric(&self) -> bool {""")], ["expr-walk"])
M("C09-R2-csv-semicolon-dialect", "C09", [("src/output/csv.rs", "let mut csv_writer = csv::Writer::from_writer(&mut csv_output);", "let mut csv_writer = csv::WriterBuilder::new().delimiter(b';').from_writer(&mut csv_output);")], ["escape_csv"])
M("C09-R2-V-csv-builder-capacity", "C09", [("src/output/csv.rs", "let mut csv_writer = csv::Writer::from_writer(&mut csv_output);", "let mut csv_writer = csv::WriterBuilder::new().buffer_capacity(4096).from_writer(&mut csv_output);")], kind="variant")
M("C02-R1-V-int-through-ordering", "C02", [(O, "impl Op {\n", """impl Op {
    /// Tells whether a value that compares to the operand as `ordering` satisfies the operator.
    pub fn accepts(&self, ordering: std::cmp::Ordering) -> bool {
        use std::cmp::Ordering;
        match self {
            Op::Eq | Op::Eeq => ordering == Ordering::Equal,
            Op::Ne | Op::Ene => ordering != Ordering::Equal,
            Op::Gt => ordering == Ordering::Greater,
            Op::Gte => ordering != Ordering::Less,
            Op::Lt => ordering == Ordering::Less,
            Op::Lte => ordering != Ordering::Greater,
            _ => false,
        }
    }
""", 1), (S, """                    match op {
                        Op::Eq | Op::Eeq => int_value == val,
                        Op::Ne | Op::Ene => int_value != val,
                        Op::Gt => int_value > val,
                        Op::Gte => int_value >= val,
                        Op::Lt => int_value < val,
                        Op::Lte => int_value <= val,
                        _ => false,
                    }""", "                    op.accepts(int_value.cmp(&val))")], kind="variant")
