// fsfacts: a rustc_private driver that exports type-checked HIR expression trees and
// MIR control-flow graphs of the local crate as one JSON fact file.  It contains no
// rules: every decision is taken by the Python rule scripts in /verif/rules.
//
// Used as RUSTC_WORKSPACE_WRAPPER (argv[1] = real rustc, dropped) under
// `cargo +nightly check`.  Output file: $FSFACTS_OUT (one write per process).
#![feature(rustc_private)]
#![allow(clippy::all)]

extern crate rustc_abi;
extern crate rustc_ast;
extern crate rustc_driver;
extern crate rustc_hir;
extern crate rustc_interface;
extern crate rustc_middle;
extern crate rustc_span;

mod json;
use json::J;

use rustc_driver::{Callbacks, Compilation};
use rustc_hir as hir;
use rustc_hir::def::{DefKind, Res};
use rustc_hir::def_id::{DefId, LocalDefId, LOCAL_CRATE};
use rustc_interface::interface::Compiler;
use rustc_middle::mir;
use rustc_middle::ty::{self, Ty, TyCtxt};
use rustc_span::Span;

struct Cb;

impl Callbacks for Cb {
    fn after_analysis<'tcx>(&mut self, _c: &Compiler, tcx: TyCtxt<'tcx>) -> Compilation {
        let name = tcx.crate_name(LOCAL_CRATE).to_string();
        let want = std::env::var("FSFACTS_CRATE").unwrap_or_else(|_| "fselect".to_string());
        if name != want {
            return Compilation::Continue;
        }
        let out = match std::env::var("FSFACTS_OUT") {
            Ok(o) => o,
            Err(_) => return Compilation::Continue,
        };
        let j = ty::print::with_no_visible_paths!(ty::print::with_no_trimmed_paths!(export(tcx)));
        let mut s = String::with_capacity(1 << 24);
        j.write(&mut s);
        let tmp = format!("{}.tmp.{}", out, std::process::id());
        std::fs::write(&tmp, s).expect("write facts");
        std::fs::rename(&tmp, &out).expect("rename facts");
        Compilation::Continue
    }
}

fn main() {
    let mut args: Vec<String> = std::env::args().collect();
    if args.len() > 1 && (args[1].ends_with("rustc") || args[1].contains("/rustc")) {
        args.remove(1);
    }
    let mut cb = Cb;
    rustc_driver::run_compiler(&args, &mut cb);
}

// ------------------------------------------------------------------------------------------

fn strip_generics(s: &str) -> String {
    // remove `::<...>` segments (balanced), keep `<T as Trait>::f` qualified paths.
    let b: Vec<char> = s.chars().collect();
    let mut out = String::new();
    let mut i = 0;
    while i < b.len() {
        if i + 2 < b.len() && b[i] == ':' && b[i + 1] == ':' && b[i + 2] == '<' {
            let mut depth = 0i32;
            let mut j = i + 2;
            while j < b.len() {
                if b[j] == '<' {
                    depth += 1;
                } else if b[j] == '>' && (j == 0 || b[j - 1] != '-') {
                    depth -= 1;
                    if depth == 0 {
                        break;
                    }
                }
                j += 1;
            }
            i = j + 1;
            continue;
        }
        out.push(b[i]);
        i += 1;
    }
    out
}

fn dp(tcx: TyCtxt<'_>, d: DefId) -> String {
    strip_generics(&tcx.def_path_str(d))
}

fn span_info(tcx: TyCtxt<'_>, sp: Span, o: &mut Vec<(String, J)>) {
    let exp = sp.from_expansion();
    let call = sp.source_callsite();
    let sm = tcx.sess.source_map();
    let loc = sm.lookup_char_pos(call.lo());
    let fname = format!("{}", loc.file.name.prefer_local_unconditionally());
    o.push(("sp".into(), J::Str(format!("{}:{}:{}", fname, loc.line, loc.col.0 + 1))));
    if exp {
        o.push(("exp".into(), J::Bool(true)));
        // outermost user-written macro
        let mut name = String::new();
        for ed in sp.macro_backtrace() {
            if let rustc_span::ExpnKind::Macro(_, sym) = ed.kind {
                name = sym.to_string();
            } else if let rustc_span::ExpnKind::Desugaring(k) = ed.kind {
                if name.is_empty() {
                    name = format!("desugar:{:?}", k);
                }
            }
        }
        o.push(("mac".into(), J::Str(name)));
    }
}

fn span_lines(tcx: TyCtxt<'_>, sp: Span) -> String {
    let sm = tcx.sess.source_map();
    let lo = sm.lookup_char_pos(sp.lo());
    let hi = sm.lookup_char_pos(sp.hi());
    format!("{}:{}-{}", lo.file.name.prefer_local_unconditionally(), lo.line, hi.line)
}

fn obj(v: Vec<(&str, J)>) -> J {
    J::Obj(v.into_iter().map(|(k, v)| (k.to_string(), v)).collect())
}

// ------------------------------------------------------------------------------------------
// HIR

struct HirX<'tcx> {
    tcx: TyCtxt<'tcx>,
    typeck: &'tcx ty::TypeckResults<'tcx>,
    owner: LocalDefId,
}

impl<'tcx> HirX<'tcx> {
    fn res(&self, qp: &hir::QPath<'tcx>, id: hir::HirId, o: &mut Vec<(String, J)>) {
        let r = self.typeck.qpath_res(qp, id);
        match r {
            Res::Local(hid) => {
                let name = self.tcx.hir_name(hid).to_string();
                o.push(("res".into(), J::Str(format!("local:{}:{}", name, hid.local_id.as_u32()))));
                o.push(("rk".into(), J::Str("Local".into())));
                o.push(("name".into(), J::Str(name)));
            }
            Res::Def(kind, did) => {
                o.push(("res".into(), J::Str(dp(self.tcx, did))));
                o.push(("rk".into(), J::Str(format!("{:?}", kind))));
                if let DefKind::Ctor(..) = kind {
                    // also give the variant / struct path
                    let parent = self.tcx.parent(did);
                    o.push(("ctor_of".into(), J::Str(dp(self.tcx, parent))));
                }
            }
            other => {
                o.push(("res".into(), J::Str(format!("{:?}", other))));
                o.push(("rk".into(), J::Str("Other".into())));
            }
        }
    }

    fn lit(&self, l: &rustc_ast::LitKind) -> Vec<(String, J)> {
        use rustc_ast::LitKind::*;
        let mut o = vec![];
        match l {
            Str(s, _) => {
                o.push(("lk".into(), J::Str("str".into())));
                o.push(("v".into(), J::Str(s.to_string())));
            }
            ByteStr(b, _) => {
                o.push(("lk".into(), J::Str("bytestr".into())));
                o.push(("v".into(), J::Str(String::from_utf8_lossy(b.as_byte_str()).to_string())));
                o.push(("bytes".into(), J::Arr(b.as_byte_str().iter().map(|x| J::Num(*x as i128)).collect())));
            }
            Byte(b) => {
                o.push(("lk".into(), J::Str("byte".into())));
                o.push(("v".into(), J::Num(*b as i128)));
            }
            Char(c) => {
                o.push(("lk".into(), J::Str("char".into())));
                o.push(("v".into(), J::Str(c.to_string())));
            }
            Int(n, _) => {
                o.push(("lk".into(), J::Str("int".into())));
                o.push(("v".into(), J::Num(n.get() as i128)));
            }
            Float(s, _) => {
                o.push(("lk".into(), J::Str("float".into())));
                o.push(("v".into(), J::Str(s.to_string())));
            }
            Bool(b) => {
                o.push(("lk".into(), J::Str("bool".into())));
                o.push(("v".into(), J::Bool(*b)));
            }
            other => {
                o.push(("lk".into(), J::Str("other".into())));
                o.push(("v".into(), J::Str(format!("{:?}", other))));
            }
        }
        o
    }

    fn pat_expr(&self, pe: &'tcx hir::PatExpr<'tcx>) -> J {
        let mut o: Vec<(String, J)> = vec![];
        match &pe.kind {
            hir::PatExprKind::Lit { lit, negated } => {
                o.push(("k".into(), J::Str("PLit".into())));
                o.extend(self.lit(&lit.node));
                if *negated {
                    o.push(("neg".into(), J::Bool(true)));
                }
            }
            hir::PatExprKind::Path(qp) => {
                o.push(("k".into(), J::Str("PPath".into())));
                self.res(qp, pe.hir_id, &mut o);
            }
            #[allow(unreachable_patterns)]
            _ => {
                o.push(("k".into(), J::Str("POther".into())));
            }
        }
        J::Obj(o)
    }

    fn pat(&self, p: &'tcx hir::Pat<'tcx>) -> J {
        let mut o: Vec<(String, J)> = vec![];
        match &p.kind {
            hir::PatKind::Wild => o.push(("k".into(), J::Str("Wild".into()))),
            hir::PatKind::Binding(_, hid, ident, sub) => {
                o.push(("k".into(), J::Str("Bind".into())));
                o.push(("name".into(), J::Str(ident.name.to_string())));
                o.push(("id".into(), J::Str(format!("local:{}:{}", ident.name, hid.local_id.as_u32()))));
                if let Some(s) = sub {
                    o.push(("sub".into(), self.pat(s)));
                }
            }
            hir::PatKind::Struct(qp, fields, _) => {
                o.push(("k".into(), J::Str("PStruct".into())));
                self.res(qp, p.hir_id, &mut o);
                let fs = fields
                    .iter()
                    .map(|f| obj(vec![("name", J::Str(f.ident.name.to_string())), ("pat", self.pat(f.pat))]))
                    .collect();
                o.push(("fields".into(), J::Arr(fs)));
            }
            hir::PatKind::TupleStruct(qp, subs, _) => {
                o.push(("k".into(), J::Str("PTS".into())));
                self.res(qp, p.hir_id, &mut o);
                o.push(("subs".into(), J::Arr(subs.iter().map(|s| self.pat(s)).collect())));
            }
            hir::PatKind::Or(alts) => {
                o.push(("k".into(), J::Str("Or".into())));
                o.push(("alts".into(), J::Arr(alts.iter().map(|s| self.pat(s)).collect())));
            }
            hir::PatKind::Tuple(subs, _) => {
                o.push(("k".into(), J::Str("PTup".into())));
                o.push(("subs".into(), J::Arr(subs.iter().map(|s| self.pat(s)).collect())));
            }
            hir::PatKind::Ref(sub, ..) => {
                o.push(("k".into(), J::Str("PRef".into())));
                o.push(("sub".into(), self.pat(sub)));
            }
            hir::PatKind::Box(sub) | hir::PatKind::Deref(sub) => {
                o.push(("k".into(), J::Str("PRef".into())));
                o.push(("sub".into(), self.pat(sub)));
            }
            hir::PatKind::Expr(pe) => {
                return self.pat_expr(pe);
            }
            hir::PatKind::Range(lo, hi, end) => {
                o.push(("k".into(), J::Str("PRange".into())));
                if let Some(lo) = lo {
                    o.push(("lo".into(), self.pat_expr(lo)));
                }
                if let Some(hi) = hi {
                    o.push(("hi".into(), self.pat_expr(hi)));
                }
                o.push(("end".into(), J::Str(format!("{:?}", end))));
            }
            hir::PatKind::Guard(sub, g) => {
                o.push(("k".into(), J::Str("PGuard".into())));
                o.push(("sub".into(), self.pat(sub)));
                o.push(("guard".into(), self.expr(g)));
            }
            hir::PatKind::Slice(before, mid, after) => {
                o.push(("k".into(), J::Str("PSlice".into())));
                o.push(("before".into(), J::Arr(before.iter().map(|p| self.pat(p)).collect())));
                if let Some(m) = mid {
                    o.push(("rest".into(), self.pat(m)));
                }
                o.push(("after".into(), J::Arr(after.iter().map(|p| self.pat(p)).collect())));
            }
            other => {
                o.push(("k".into(), J::Str("POther".into())));
                let d = format!("{:?}", other);
                o.push(("d".into(), J::Str(d.chars().take(80).collect())));
            }
        }
        J::Obj(o)
    }

    fn block(&self, b: &'tcx hir::Block<'tcx>) -> J {
        let mut o: Vec<(String, J)> = vec![("k".into(), J::Str("Block".into()))];
        span_info(self.tcx, b.span, &mut o);
        let mut stmts = vec![];
        for s in b.stmts {
            match &s.kind {
                hir::StmtKind::Let(l) => {
                    let mut lo: Vec<(String, J)> = vec![("k".into(), J::Str("Let".into()))];
                    span_info(self.tcx, s.span, &mut lo);
                    lo.push(("pat".into(), self.pat(l.pat)));
                    if let Some(i) = l.init {
                        lo.push(("init".into(), self.expr(i)));
                    }
                    if let Some(e) = l.els {
                        lo.push(("els".into(), self.block(e)));
                    }
                    stmts.push(J::Obj(lo));
                }
                hir::StmtKind::Expr(e) | hir::StmtKind::Semi(e) => stmts.push(self.expr(e)),
                hir::StmtKind::Item(_) => {}
            }
        }
        o.push(("stmts".into(), J::Arr(stmts)));
        if let Some(e) = b.expr {
            o.push(("expr".into(), self.expr(e)));
        }
        J::Obj(o)
    }

    fn callee_info(&self, def: DefId, hid: hir::HirId, o: &mut Vec<(String, J)>) {
        o.push(("callee".into(), J::Str(dp(self.tcx, def))));
        let _ = hid;
    }

    fn expr(&self, e: &'tcx hir::Expr<'tcx>) -> J {
        use hir::ExprKind as K;
        // transparent wrappers
        match &e.kind {
            K::DropTemps(inner) => return self.expr(inner),
            K::Use(inner, _) => return self.expr(inner),
            K::Type(inner, _) => return self.expr(inner),
            _ => {}
        }
        let mut o: Vec<(String, J)> = vec![];
        let kind: &str;
        match &e.kind {
            K::Lit(l) => {
                kind = "Lit";
                o.extend(self.lit(&l.node));
            }
            K::Path(qp) => {
                kind = "Path";
                self.res(qp, e.hir_id, &mut o);
                if !e.span.from_expansion() {
                    if let Ok(snip) = self.tcx.sess.source_map().span_to_snippet(e.span) {
                        if snip.len() <= 100 && snip.contains("::") {
                            o.push(("txt".into(), J::Str(snip)));
                        }
                    }
                }
            }
            K::Binary(op, l, r) => {
                kind = "Bin";
                o.push(("op".into(), J::Str(op.node.as_str().to_string())));
                o.push(("l".into(), self.expr(l)));
                o.push(("r".into(), self.expr(r)));
                if let Some(d) = self.typeck.type_dependent_def_id(e.hir_id) {
                    o.push(("callee".into(), J::Str(dp(self.tcx, d))));
                }
            }
            K::Unary(op, x) => {
                kind = "Un";
                o.push(("op".into(), J::Str(op.as_str().to_string())));
                o.push(("e".into(), self.expr(x)));
            }
            K::MethodCall(seg, recv, args, _) => {
                kind = "MCall";
                o.push(("m".into(), J::Str(seg.ident.name.to_string())));
                if let Some(d) = self.typeck.type_dependent_def_id(e.hir_id) {
                    self.callee_info(d, e.hir_id, &mut o);
                }
                o.push(("recv".into(), self.expr(recv)));
                o.push(("args".into(), J::Arr(args.iter().map(|a| self.expr(a)).collect())));
            }
            K::Call(f, args) => {
                kind = "Call";
                if let K::Path(qp) = &f.kind {
                    if let Res::Def(k, d) = self.typeck.qpath_res(qp, f.hir_id) {
                        match k {
                            DefKind::Fn | DefKind::AssocFn => self.callee_info(d, f.hir_id, &mut o),
                            DefKind::Ctor(..) => {
                                o.push(("callee".into(), J::Str(dp(self.tcx, d))));
                                o.push(("ctor".into(), J::Bool(true)));
                            }
                            _ => {}
                        }
                    }
                }
                o.push(("f".into(), self.expr(f)));
                o.push(("args".into(), J::Arr(args.iter().map(|a| self.expr(a)).collect())));
            }
            K::Field(x, ident) => {
                kind = "Field";
                o.push(("e".into(), self.expr(x)));
                o.push(("name".into(), J::Str(ident.name.to_string())));
            }
            K::Index(x, i, _) => {
                kind = "Index";
                o.push(("e".into(), self.expr(x)));
                o.push(("i".into(), self.expr(i)));
                if let Some(d) = self.typeck.type_dependent_def_id(e.hir_id) {
                    o.push(("callee".into(), J::Str(dp(self.tcx, d))));
                }
            }
            K::AddrOf(_, m, x) => {
                kind = "Ref";
                o.push(("mut".into(), J::Bool(m.is_mut())));
                o.push(("e".into(), self.expr(x)));
            }
            K::Cast(x, _) => {
                kind = "Cast";
                o.push(("e".into(), self.expr(x)));
            }
            K::If(c, t, el) => {
                kind = "If";
                o.push(("c".into(), self.expr(c)));
                o.push(("t".into(), self.expr(t)));
                if let Some(el) = el {
                    o.push(("e".into(), self.expr(el)));
                }
            }
            K::Let(l) => {
                kind = "LetE";
                o.push(("pat".into(), self.pat(l.pat)));
                o.push(("init".into(), self.expr(l.init)));
            }
            K::Match(scrut, arms, src) => {
                kind = "Match";
                o.push(("src".into(), J::Str(format!("{:?}", src))));
                o.push(("scrut".into(), self.expr(scrut)));
                let mut av = vec![];
                for a in *arms {
                    let mut ao: Vec<(String, J)> = vec![];
                    span_info(self.tcx, a.span, &mut ao);
                    ao.push(("pat".into(), self.pat(a.pat)));
                    if let Some(g) = a.guard {
                        ao.push(("guard".into(), self.expr(g)));
                    }
                    ao.push(("body".into(), self.expr(a.body)));
                    av.push(J::Obj(ao));
                }
                o.push(("arms".into(), J::Arr(av)));
            }
            K::Block(b, _) => {
                return self.block(b);
            }
            K::Assign(l, r, _) => {
                kind = "Assign";
                o.push(("l".into(), self.expr(l)));
                o.push(("r".into(), self.expr(r)));
            }
            K::AssignOp(op, l, r) => {
                kind = "AssignOp";
                o.push(("op".into(), J::Str(op.node.as_str().to_string())));
                o.push(("l".into(), self.expr(l)));
                o.push(("r".into(), self.expr(r)));
            }
            K::Ret(x) => {
                kind = "Ret";
                if let Some(x) = x {
                    o.push(("e".into(), self.expr(x)));
                }
            }
            K::Break(_, x) => {
                kind = "Break";
                if let Some(x) = x {
                    o.push(("e".into(), self.expr(x)));
                }
            }
            K::Continue(_) => {
                kind = "Continue";
            }
            K::Loop(b, _, src, _) => {
                kind = "Loop";
                o.push(("src".into(), J::Str(format!("{:?}", src))));
                o.push(("body".into(), self.block(b)));
            }
            K::Closure(c) => {
                kind = "Closure";
                o.push(("def".into(), J::Str(dp(self.tcx, c.def_id.to_def_id()))));
                let body = self.tcx.hir_body(c.body);
                o.push((
                    "params".into(),
                    J::Arr(body.params.iter().map(|p| self.pat(p.pat)).collect()),
                ));
                o.push(("body".into(), self.expr(body.value)));
            }
            K::Struct(qp, fields, tail) => {
                kind = "Struct";
                self.res(qp, e.hir_id, &mut o);
                let fs = fields
                    .iter()
                    .map(|f| obj(vec![("name", J::Str(f.ident.name.to_string())), ("e", self.expr(f.expr))]))
                    .collect();
                o.push(("fields".into(), J::Arr(fs)));
                if let hir::StructTailExpr::Base(b) = tail {
                    o.push(("base".into(), self.expr(b)));
                }
            }
            K::Tup(xs) => {
                kind = "Tup";
                o.push(("es".into(), J::Arr(xs.iter().map(|a| self.expr(a)).collect())));
            }
            K::Array(xs) => {
                kind = "Array";
                o.push(("es".into(), J::Arr(xs.iter().map(|a| self.expr(a)).collect())));
            }
            K::Repeat(x, _) => {
                kind = "Repeat";
                o.push(("e".into(), self.expr(x)));
            }
            other => {
                kind = "Other";
                let d = format!("{:?}", other);
                o.push(("d".into(), J::Str(d.chars().take(60).collect())));
            }
        }
        let mut out: Vec<(String, J)> = vec![("k".into(), J::Str(kind.into()))];
        span_info(self.tcx, e.span, &mut out);
        let t = self.typeck.expr_ty_opt(e).map(|t| t.to_string()).unwrap_or_default();
        out.push(("ty".into(), J::Str(t)));
        out.extend(o);
        J::Obj(out)
    }
}

// ------------------------------------------------------------------------------------------
// MIR

struct MirX<'tcx> {
    tcx: TyCtxt<'tcx>,
    body: &'tcx mir::Body<'tcx>,
    did: DefId,
}

impl<'tcx> MirX<'tcx> {
    fn place(&self, p: &mir::Place<'tcx>) -> J {
        let mut pr = vec![];
        let mut pty = mir::PlaceTy::from_ty(self.body.local_decls[p.local].ty);
        for elem in p.projection.iter() {
            let s = match elem {
                mir::ProjectionElem::Deref => "*".to_string(),
                mir::ProjectionElem::Field(f, _) => {
                    let mut name = format!(".{}", f.as_u32());
                    if let ty::Adt(adt, _) = pty.ty.kind() {
                        let vi = pty.variant_index.unwrap_or(rustc_abi::FIRST_VARIANT);
                        if vi.as_usize() < adt.variants().len() {
                            let v = adt.variant(vi);
                            if f.as_usize() < v.fields.len() {
                                name = format!(".{}", v.fields[f].name);
                            }
                        }
                    }
                    name
                }
                mir::ProjectionElem::Downcast(Some(sym), _) => format!("@{}", sym),
                mir::ProjectionElem::Downcast(None, idx) => format!("@#{}", idx.as_u32()),
                mir::ProjectionElem::Index(l) => format!("[_{}]", l.as_u32()),
                mir::ProjectionElem::ConstantIndex { offset, from_end, .. } => {
                    if from_end {
                        format!("[-{}]", offset)
                    } else {
                        format!("[{}]", offset)
                    }
                }
                mir::ProjectionElem::Subslice { from, to, from_end } => {
                    format!("[{}..{}{}]", from, if from_end { "-" } else { "" }, to)
                }
                other => format!("?{:?}", other),
            };
            pr.push(J::Str(s));
            pty = pty.projection_ty(self.tcx, elem);
        }
        obj(vec![("l", J::Num(p.local.as_u32() as i128)), ("pr", J::Arr(pr))])
    }

    fn konst(&self, c: &mir::ConstOperand<'tcx>) -> J {
        let ty = c.const_.ty();
        let mut o: Vec<(String, J)> = vec![("ty".into(), J::Str(ty.to_string()))];
        if let ty::FnDef(d, _) = ty.kind() {
            o.push(("fn".into(), J::Str(dp(self.tcx, *d))));
            return obj(vec![("c", J::Obj(o))]);
        }
        if let mir::Const::Unevaluated(uv, _) = c.const_ {
            if uv.promoted.is_none() {
                o.push(("named".into(), J::Str(dp(self.tcx, uv.def))));
            } else {
                o.push(("promoted".into(), J::Num(uv.promoted.unwrap().as_u32() as i128)));
            }
        }
        let env = ty::TypingEnv::post_analysis(self.tcx, self.did);
        match c.const_.eval(self.tcx, env, c.span) {
            Ok(val) => {
                if let Some(si) = val.try_to_scalar_int() {
                    let size = si.size();
                    let bits = si.to_bits(size);
                    match ty.kind() {
                        ty::Bool => o.push(("bool".into(), J::Bool(bits != 0))),
                        ty::Char => {
                            o.push(("char".into(), J::Str(char::from_u32(bits as u32).unwrap_or('?').to_string())))
                        }
                        ty::Float(ft) => {
                            let f = match ft.bit_width() {
                                32 => f32::from_bits(bits as u32) as f64,
                                _ => f64::from_bits(bits as u64),
                            };
                            o.push(("float".into(), J::Str(format!("{:?}", f))));
                        }
                        ty::Int(_) => {
                            let sz = size.bits();
                            let v = if sz == 128 {
                                bits as i128
                            } else {
                                let shift = 128 - sz;
                                ((bits as i128) << shift) >> shift
                            };
                            o.push(("int".into(), J::Num(v)));
                        }
                        _ => o.push(("int".into(), J::Num(bits as i128))),
                    }
                } else if let Some(bytes) = slice_bytes(self.tcx, ty, &val) {
                    o.push(("str".into(), J::Str(String::from_utf8_lossy(bytes).to_string())));
                } else {
                    o.push(("d".into(), J::Str(format!("{}", c.const_))));
                }
            }
            Err(_) => {
                o.push(("d".into(), J::Str(format!("{}", c.const_))));
            }
        }
        obj(vec![("c", J::Obj(o))])
    }

    fn operand(&self, op: &mir::Operand<'tcx>) -> J {
        match op {
            mir::Operand::Copy(p) => obj(vec![("p", self.place(p))]),
            mir::Operand::Move(p) => obj(vec![("p", self.place(p)), ("mv", J::Bool(true))]),
            mir::Operand::Constant(c) => self.konst(c),
            #[allow(unreachable_patterns)]
            other => obj(vec![("d", J::Str(format!("{:?}", other)))]),
        }
    }

    fn rvalue(&self, rv: &mir::Rvalue<'tcx>) -> J {
        use mir::Rvalue as R;
        match rv {
            R::Use(o, _) => obj(vec![("k", J::Str("Use".into())), ("o", self.operand(o))]),
            R::Ref(_, bk, p) => obj(vec![
                ("k", J::Str("Ref".into())),
                ("mut", J::Bool(matches!(bk, mir::BorrowKind::Mut { .. }))),
                ("p", self.place(p)),
            ]),
            R::RawPtr(_, p) => obj(vec![("k", J::Str("RawPtr".into())), ("p", self.place(p))]),
            R::BinaryOp(op, ab) => obj(vec![
                ("k", J::Str("Bin".into())),
                ("op", J::Str(format!("{:?}", op))),
                ("a", self.operand(&ab.0)),
                ("b", self.operand(&ab.1)),
            ]),
            R::UnaryOp(op, a) => obj(vec![
                ("k", J::Str("Un".into())),
                ("op", J::Str(format!("{:?}", op))),
                ("a", self.operand(a)),
            ]),
            R::Cast(ck, o, t) => obj(vec![
                ("k", J::Str("Cast".into())),
                ("ck", J::Str(format!("{:?}", ck).chars().take(40).collect())),
                ("o", self.operand(o)),
                ("ty", J::Str(t.to_string())),
            ]),
            R::Discriminant(p) => obj(vec![("k", J::Str("Discr".into())), ("p", self.place(p))]),
            R::Aggregate(ak, ops) => {
                let akd = match &**ak {
                    mir::AggregateKind::Adt(d, vi, _, _, _) => {
                        let adt = self.tcx.adt_def(*d);
                        format!("Adt:{}:{}", dp(self.tcx, *d), adt.variant(*vi).name)
                    }
                    mir::AggregateKind::Tuple => "Tuple".to_string(),
                    mir::AggregateKind::Array(_) => "Array".to_string(),
                    mir::AggregateKind::Closure(d, _) => format!("Closure:{}", dp(self.tcx, *d)),
                    other => format!("{:?}", other).chars().take(40).collect(),
                };
                obj(vec![
                    ("k", J::Str("Agg".into())),
                    ("ak", J::Str(akd)),
                    ("ops", J::Arr(ops.iter().map(|o| self.operand(o)).collect())),
                ])
            }
            R::CopyForDeref(p) => obj(vec![("k", J::Str("Use".into())), ("o", obj(vec![("p", self.place(p))]))]),
            other => {
                let d = format!("{:?}", other);
                obj(vec![("k", J::Str("Other".into())), ("d", J::Str(d.chars().take(80).collect()))])
            }
        }
    }

    fn body_json(&self) -> J {
        let body = self.body;
        let mut names: std::collections::HashMap<u32, String> = Default::default();
        for vdi in &body.var_debug_info {
            if let mir::VarDebugInfoContents::Place(p) = &vdi.value {
                if p.projection.is_empty() {
                    names.entry(p.local.as_u32()).or_insert(vdi.name.to_string());
                }
            }
        }
        let mut locals = vec![];
        for (l, d) in body.local_decls.iter_enumerated() {
            let mut o = vec![("ty", J::Str(d.ty.to_string()))];
            if let Some(n) = names.get(&l.as_u32()) {
                o.push(("name", J::Str(n.clone())));
            }
            locals.push(obj(o));
        }
        // closure upvar debug names
        let mut upvars = vec![];
        for vdi in &body.var_debug_info {
            if let mir::VarDebugInfoContents::Place(p) = &vdi.value {
                if !p.projection.is_empty() {
                    upvars.push(obj(vec![("name", J::Str(vdi.name.to_string())), ("p", self.place(p))]));
                }
            }
        }
        let mut blocks = vec![];
        for (_bb, data) in body.basic_blocks.iter_enumerated() {
            let mut stmts = vec![];
            for st in &data.statements {
                match &st.kind {
                    mir::StatementKind::Assign(b) => {
                        let (p, rv) = &**b;
                        let mut o: Vec<(String, J)> = vec![("k".into(), J::Str("A".into()))];
                        span_info(self.tcx, st.source_info.span, &mut o);
                        o.push(("p".into(), self.place(p)));
                        o.push(("rv".into(), self.rvalue(rv)));
                        stmts.push(J::Obj(o));
                    }
                    mir::StatementKind::SetDiscriminant { place, variant_index } => {
                        let mut o: Vec<(String, J)> = vec![("k".into(), J::Str("SetDiscr".into()))];
                        o.push(("p".into(), self.place(place)));
                        o.push(("v".into(), J::Num(variant_index.as_u32() as i128)));
                        stmts.push(J::Obj(o));
                    }
                    _ => {}
                }
            }
            let term = data.terminator();
            let mut t: Vec<(String, J)> = vec![];
            span_info(self.tcx, term.source_info.span, &mut t);
            use mir::TerminatorKind as T;
            match &term.kind {
                T::Goto { target } => {
                    t.push(("k".into(), J::Str("Goto".into())));
                    t.push(("t".into(), J::Num(target.as_u32() as i128)));
                }
                T::SwitchInt { discr, targets } => {
                    t.push(("k".into(), J::Str("Sw".into())));
                    t.push(("o".into(), self.operand(discr)));
                    let vals = targets
                        .iter()
                        .map(|(v, bb)| J::Arr(vec![J::Num(v as i128), J::Num(bb.as_u32() as i128)]))
                        .collect();
                    t.push(("vals".into(), J::Arr(vals)));
                    t.push(("else".into(), J::Num(targets.otherwise().as_u32() as i128)));
                }
                T::Return => t.push(("k".into(), J::Str("Return".into()))),
                T::Unreachable => t.push(("k".into(), J::Str("Unreachable".into()))),
                T::UnwindResume => t.push(("k".into(), J::Str("Resume".into()))),
                T::Drop { place, target, .. } => {
                    t.push(("k".into(), J::Str("Drop".into())));
                    t.push(("p".into(), self.place(place)));
                    t.push(("t".into(), J::Num(target.as_u32() as i128)));
                }
                T::Call { func, args, destination, target, fn_span, .. } => {
                    t.push(("k".into(), J::Str("Call".into())));
                    let mut fs: Vec<(String, J)> = vec![];
                    span_info(self.tcx, *fn_span, &mut fs);
                    t.push(("fsp".into(), J::Obj(fs)));
                    match func {
                        mir::Operand::Constant(c) => {
                            if let ty::FnDef(d, ga) = c.const_.ty().kind() {
                                t.push(("f".into(), J::Str(dp(self.tcx, *d))));
                                t.push(("fraw".into(), J::Str(self.tcx.def_path_str_with_args(*d, ga))));
                                let env = ty::TypingEnv::post_analysis(self.tcx, self.did);
                                if let Ok(Some(inst)) = ty::Instance::try_resolve(self.tcx, env, *d, ga) {
                                    let id = inst.def_id();
                                    t.push(("inst".into(), J::Str(dp(self.tcx, id))));
                                }
                            } else {
                                t.push(("findirect".into(), self.operand(func)));
                            }
                        }
                        _ => {
                            t.push(("findirect".into(), self.operand(func)));
                        }
                    }
                    t.push(("args".into(), J::Arr(args.iter().map(|a| self.operand(&a.node)).collect())));
                    t.push(("dest".into(), self.place(destination)));
                    if let Some(tg) = target {
                        t.push(("t".into(), J::Num(tg.as_u32() as i128)));
                    }
                }
                T::Assert { cond, expected, msg, target, .. } => {
                    t.push(("k".into(), J::Str("Assert".into())));
                    t.push(("cond".into(), self.operand(cond)));
                    t.push(("expected".into(), J::Bool(*expected)));
                    let m = match &**msg {
                        mir::AssertKind::BoundsCheck { len, index } => obj(vec![
                            ("k", J::Str("BoundsCheck".into())),
                            ("a", self.operand(len)),
                            ("b", self.operand(index)),
                        ]),
                        mir::AssertKind::Overflow(op, a, b) => obj(vec![
                            ("k", J::Str("Overflow".into())),
                            ("op", J::Str(format!("{:?}", op))),
                            ("a", self.operand(a)),
                            ("b", self.operand(b)),
                        ]),
                        mir::AssertKind::OverflowNeg(a) => {
                            obj(vec![("k", J::Str("OverflowNeg".into())), ("a", self.operand(a))])
                        }
                        mir::AssertKind::DivisionByZero(a) => {
                            obj(vec![("k", J::Str("DivisionByZero".into())), ("a", self.operand(a))])
                        }
                        mir::AssertKind::RemainderByZero(a) => {
                            obj(vec![("k", J::Str("RemainderByZero".into())), ("a", self.operand(a))])
                        }
                        other => {
                            let d = format!("{:?}", other);
                            obj(vec![("k", J::Str("Other".into())), ("d", J::Str(d.chars().take(60).collect()))])
                        }
                    };
                    t.push(("msg".into(), m));
                    t.push(("t".into(), J::Num(target.as_u32() as i128)));
                }
                other => {
                    t.push(("k".into(), J::Str("Other".into())));
                    let d = format!("{:?}", other);
                    t.push(("d".into(), J::Str(d.chars().take(60).collect())));
                    let succ: Vec<J> = term.successors().map(|b| J::Num(b.as_u32() as i128)).collect();
                    t.push(("succ".into(), J::Arr(succ)));
                }
            }
            blocks.push(obj(vec![
                ("stmts", J::Arr(stmts)),
                ("term", J::Obj(t)),
                ("cleanup", J::Bool(data.is_cleanup)),
            ]));
        }
        obj(vec![
            ("argc", J::Num(body.arg_count as i128)),
            ("locals", J::Arr(locals)),
            ("upvars", J::Arr(upvars)),
            ("blocks", J::Arr(blocks)),
        ])
    }
}

// ------------------------------------------------------------------------------------------

fn slice_bytes<'tcx>(tcx: TyCtxt<'tcx>, ty: Ty<'tcx>, v: &mir::ConstValue) -> Option<&'tcx [u8]> {
    let ok_ty = match ty.kind() {
        ty::Ref(_, inner, _) => match inner.kind() {
            ty::Str => true,
            ty::Slice(e) => matches!(e.kind(), ty::Uint(ty::UintTy::U8)),
            _ => false,
        },
        _ => false,
    };
    if !ok_ty {
        return None;
    }
    match v {
        mir::ConstValue::Slice { .. } | mir::ConstValue::Indirect { .. } => v.try_get_slice_bytes_for_diagnostics(tcx),
        _ => None,
    }
}

fn ty_s<'tcx>(t: Ty<'tcx>) -> String {
    t.to_string()
}

fn export<'tcx>(tcx: TyCtxt<'tcx>) -> J {
    let mut fns: Vec<(String, J)> = vec![];
    let mut n_hir = 0i128;
    let mut n_mir = 0i128;

    let mir_keys = tcx.mir_keys(());

    for ldid in tcx.hir_body_owners() {
        let did = ldid.to_def_id();
        let kind = tcx.def_kind(did);
        let mut o: Vec<(String, J)> = vec![];
        o.push(("kind".into(), J::Str(format!("{:?}", kind))));
        o.push(("span".into(), J::Str(span_lines(tcx, tcx.def_span(did)))));
        if let Some(p) = tcx.opt_local_parent(ldid) {
            o.push(("parent".into(), J::Str(dp(tcx, p.to_def_id()))));
        }
        let is_fn = matches!(kind, DefKind::Fn | DefKind::AssocFn);
        let is_closure = matches!(kind, DefKind::Closure);
        if is_fn {
            let sig = tcx.fn_sig(did).instantiate_identity().skip_norm_wip();
            o.push(("sig".into(), J::Str(sig.to_string())));
        }
        // HIR tree (closures are inlined in their parent and not exported separately)
        if !is_closure {
            let typeck = tcx.typeck(ldid);
            let body = tcx.hir_body_owned_by(ldid);
            let hx = HirX { tcx, typeck, owner: ldid };
            let params: Vec<J> = body.params.iter().map(|p| hx.pat(p.pat)).collect();
            o.push(("params".into(), J::Arr(params)));
            o.push(("hir".into(), hx.expr(body.value)));
            n_hir += 1;
        }
        if (is_fn || is_closure) && mir_keys.contains(&ldid) {
            let body = tcx.optimized_mir(did);
            let mx = MirX { tcx, body, did };
            o.push(("mir".into(), mx.body_json()));
            n_mir += 1;
        }
        let mut name = dp(tcx, did);
        // disambiguate duplicate closure paths
        if fns.iter().any(|(n, _)| *n == name) {
            let mut k = 1;
            while fns.iter().any(|(n, _)| *n == format!("{}#{}", name, k)) {
                k += 1;
            }
            name = format!("{}#{}", name, k);
        }
        fns.push((name, J::Obj(o)));
    }

    // ADTs and consts
    let mut adts: Vec<(String, J)> = vec![];
    let mut consts: Vec<(String, J)> = vec![];
    for ldid in tcx.hir_crate_items(()).definitions() {
        let did = ldid.to_def_id();
        match tcx.def_kind(did) {
            DefKind::Struct | DefKind::Enum => {
                let adt = tcx.adt_def(did);
                let mut vs = vec![];
                for v in adt.variants() {
                    let fs: Vec<J> = v
                        .fields
                        .iter()
                        .map(|f| {
                            obj(vec![
                                ("name", J::Str(f.name.to_string())),
                                ("ty", J::Str(ty_s(tcx.type_of(f.did).instantiate_identity().skip_norm_wip()))),
                            ])
                        })
                        .collect();
                    vs.push(obj(vec![("name", J::Str(v.name.to_string())), ("fields", J::Arr(fs))]));
                }
                adts.push((
                    dp(tcx, did),
                    obj(vec![
                        ("kind", J::Str(if adt.is_enum() { "enum".into() } else { "struct".into() })),
                        ("variants", J::Arr(vs)),
                        ("span", J::Str(span_lines(tcx, tcx.def_span(did)))),
                    ]),
                ));
            }
            DefKind::Const { .. } | DefKind::AssocConst { .. } => {
                if tcx.generics_of(did).count() == 0 {
                    if let Ok(v) = tcx.const_eval_poly(did) {
                        let t = tcx.type_of(did).instantiate_identity().skip_norm_wip();
                        let mut o = vec![("ty", J::Str(ty_s(t)))];
                        if let Some(si) = v.try_to_scalar_int() {
                            let bits = si.to_bits(si.size());
                            o.push(("int", J::Num(bits as i128)));
                        } else if let Some(b) = slice_bytes(tcx, t, &v) {
                            o.push(("str", J::Str(String::from_utf8_lossy(b).to_string())));
                        }
                        consts.push((dp(tcx, did), obj(o)));
                    }
                }
            }
            _ => {}
        }
    }

    let meta = obj(vec![
        ("crate", J::Str(tcx.crate_name(LOCAL_CRATE).to_string())),
        ("n_hir", J::Num(n_hir)),
        ("n_mir", J::Num(n_mir)),
        ("source_hash", J::Str(std::env::var("FSFACTS_HASH").unwrap_or_default())),
        ("config", J::Str(std::env::var("FSFACTS_CONFIG").unwrap_or_default())),
    ]);

    obj(vec![("meta", meta), ("fns", J::Obj(fns)), ("adts", J::Obj(adts)), ("consts", J::Obj(consts))])
}
