#!/bin/bash
# tools/process_seed.sh <prop> <letter>: confirm the seed delivered in /tmp/wt-<prop>/_out, store it as seeded/<prop>-<letter>,
# run the property's own check and all checks against it on a scratch copy; prints a summary. Keeps the agent's worktree.
P=$1; L=$2; ID=$P-$L
/verif/tools/confirm_seed.sh $ID /tmp/wt-$P $P > /tmp/ps-$ID.log 2>&1
if ! grep -q "result: CONFIRMED" /tmp/ps-$ID.log; then echo "$ID REJECTED"; tail -15 /tmp/ps-$ID.log; exit 1; fi
python3 /verif/tools/try_patch.py /verif/seeded/$ID/patch.diff > /tmp/ps-$ID.try 2>&1
own=$(grep -c "^== $P fires" /tmp/ps-$ID.try)
echo "$ID CONFIRMED own-check=$([ $own = 1 ] && echo caught || echo MISSED) all: $(grep '^== ' /tmp/ps-$ID.try | awk '{print $2}' | tr '\n' ' ')"
grep -A3 "^== $P fires" /tmp/ps-$ID.try | cut -c1-260
