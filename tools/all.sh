#!/bin/bash
# tools/all.sh [tier]: all 20 checks in parallel on /repo; prints only checks that exit non-zero or report a violation
T=${1:-quick}
for i in $(seq -w 1 20); do ( /verif/check C$i --tier $T > /tmp/q_C$i.log 2>&1; echo "C$i $? $(tail -1 /tmp/q_C$i.log)" ) & done | sort | awk '$2!=0 || !/ 0 violations/'; wait; echo "all done"
