#!/bin/bash
# tools/try_refactors.sh <agent-worktree> : runs ALL registered checks against each behaviour-preserving refactoring
# <wt>/_out/refactor-N.diff on a scratch copy of /repo (never /repo itself); every check must stay silent.
WT=$1
for f in "$WT"/_out/refactor-*.diff; do
  [ -f "$f" ] || continue
  out=$(python3 /verif/tools/try_patch.py "$f" 2>&1)
  if echo "$out" | grep -q "no check fires"; then echo "silent  $(basename $f)"; else echo "ALARM   $(basename $f)"; echo "$out" | head -12 | cut -c1-330; fi
done
