#!/usr/bin/env python3
"""Runs every registered check against a scratch copy of /repo with a patch applied (never touches /repo).
usage: tools/try_patch.py <patch.diff> [C01 C02 ...]   -> prints which checks report a violation"""
import json
import os
import shutil
import subprocess
import sys
import tempfile

VERIF = os.path.dirname(os.path.dirname(os.path.abspath(__file__)))


def main():
    patch = os.path.abspath(sys.argv[1])
    props = sys.argv[2:] or [c["property_id"] for c in json.load(open(os.path.join(VERIF, "MANIFEST.json")))["checks"]]
    d = tempfile.mkdtemp(prefix="fspatch-")
    try:
        for f in ("Cargo.toml", "Cargo.lock"):
            shutil.copy(os.path.join("/repo", f), d)
        shutil.copytree("/repo/src", os.path.join(d, "src"))
        subprocess.run(["git", "init", "-q"], cwd=d, check=True)
        r = subprocess.run(["git", "apply", "--include=src/*", "--include=Cargo.toml", patch], cwd=d, stdout=subprocess.PIPE, stderr=subprocess.STDOUT, text=True)
        if r.returncode != 0:
            print("patch does not apply:", r.stdout)
            return 2
        env = dict(os.environ, VERIF_REPO=d, VERIF_REPORTS_DIR=os.path.join(d, "reports"), VERIF_EVIDENCE_DIR=os.path.join(d, "evidence"))
        fired = {}
        for p in props:
            r = subprocess.run([os.path.join(VERIF, "check"), p], env=env, stdout=subprocess.PIPE, stderr=subprocess.STDOUT, text=True)
            v = [l for l in r.stdout.splitlines() if l.startswith("VIOLATION")]
            if r.returncode != 0 or v:
                msgs = [l.strip() for l in r.stdout.splitlines() if l.startswith("  ")]
                fired[p] = (v, msgs)
        for p, (v, msgs) in fired.items():
            print("== %s fires (%d):" % (p, len(v)))
            rules = sorted({l.split("replay=")[1].rsplit("/", 1)[1].split("_")[0] for l in v if "replay=" in l})
            print("  rules: %s" % " ".join(rules))
            for m in msgs[:6]:
                print("   ", m[:300])
        if not fired:
            print("no check fires")
        return 0 if fired else 1
    finally:
        shutil.rmtree(d, ignore_errors=True)


if __name__ == "__main__":
    sys.exit(main())
