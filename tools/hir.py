#!/usr/bin/env python3
"""tools/hir.py <fn-substring> [config] [--json]: print the rendered HIR of matching functions (debug aid for rule writing)."""
import json
import os
import sys
sys.path.insert(0, os.path.join(os.path.dirname(os.path.abspath(__file__)), "..", "rules"))
import facts, mirq, hirq  # noqa
pat = sys.argv[1]
cfg = sys.argv[2] if len(sys.argv) > 2 and not sys.argv[2].startswith("--") else "default"
f, h = facts.load(cfg)
prog = mirq.Program(f)
for name, fn in prog.fns.items():
    if pat in name and "hir" in fn:
        print("== %s  (%s)" % (name, prog.span(name)))
        if "--json" in sys.argv:
            print(json.dumps(fn["hir"] if "--raw" in sys.argv else prog.hir(name), indent=1)[:20000])
        else:
            print(hirq.render(fn["hir"] if "--raw" in sys.argv else prog.hir(name)))
