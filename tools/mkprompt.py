#!/usr/bin/env python3
"""tools/mkprompt.py <prop> <worktree> [--kind seed|refactor]: prints the prompt given to an independent sub-agent.
The prompt contains the property text, the agent's scratch worktree and one line per change earlier agents delivered
for that property (so it picks another mechanism) - nothing about the checks of /verif."""
import glob
import json
import os
import sys

VERIF = os.path.dirname(os.path.dirname(os.path.abspath(__file__)))


def main():
    prop, wt = sys.argv[1], sys.argv[2]
    p = [json.loads(l) for l in open(os.path.join(VERIF, "properties.jsonl")) if json.loads(l)["id"] == prop][0]
    earlier = []
    for m in sorted(glob.glob(os.path.join(VERIF, "seeded", prop + "-*", "meta.json"))):
        earlier.append("- " + json.load(open(m))["change"])
    anchors = "\n".join("  - %s (%s)" % (a["name"], a["where"]) for a in p["anchors"]["mechanism"])
    print(f"""You are helping test a verification effort for the Rust CLI `fselect` (jhspetersson/fselect). You have your own scratch
git worktree of the repository at {wt} (a detached checkout; work ONLY there, never in /repo, never read or write /verif).
The sandbox has no network; build with `cargo build --offline` and test with `cargo test --offline` inside {wt}
(the suite has 137 tests and all pass on the unchanged tree).

The property under test:

  id: {p['id']}
  title: {p['title']}
  statement: {p['statement']}
  quantified over: {p['quantifier']['text']}
  where it is implemented:
{anchors}

YOUR TASK: write ONE realistic change to fselect's source (the kind of slip a maintainer could make in a refactoring, an
optimisation, a "simplification" or a feature addition - 3 to 40 changed lines, looks plausible in review) that BREAKS this
property while (a) the crate still compiles without new warnings being errors, (b) all 137 existing tests still pass, and
(c) ordinary use does not expose it at once: it must need something specific to manifest - an unusual input, a particular
combination of two options or clauses, a multi-step sequence, a particular directory shape / file kind / fault, a
particular clock or locale condition, or two cooperating sites that each look fine alone. Prefer changes in places a
reviewer would not look at first (helpers, conversions, caches, tables shared by several features, the lexer, option
plumbing, the interaction of two clauses) over the obvious line of the central function.

Earlier agents already delivered the following changes for this property. Do NOT repeat any of them or a close variation
of them; pick a different mechanism and, if you can, a different function:
{chr(10).join(earlier)}

Deliverables, all under {wt}/_out/ (create the directory):
  1. patch.diff  - `git diff` of your change against the worktree's HEAD (source files only: src/**, Cargo.toml if needed; no
                   new dependencies). It must apply with `git apply` to a clean checkout.
  2. demo.sh     - a bash script taking the path of an fselect binary as $1. It builds whatever directory tree / files it
                   needs under a fresh `mktemp -d` (and removes it at the end), runs the binary with one or a few queries
                   and EXITS 0 IF THE PROPERTY HOLDS, NON-ZERO IF IT IS VIOLATED. It must exit 0 with the unchanged binary
                   and non-zero with your changed binary, deterministically, within 60 seconds, without network or root
                   privileges beyond what the sandbox gives. It must check the property's statement (an expected result
                   computed independently, e.g. with find/stat/sort/awk or by comparing two equivalent queries), not merely
                   "output differs from the old binary".
  3. notes.md    - 5-15 lines: what the change is, why it looks plausible, what exactly is needed for it to manifest, and
                   why the 137 tests do not notice.

Before you finish, verify yourself: the unchanged tree's debug binary is already at {wt}/_out/fselect.orig;
apply your change, `cargo build --offline`, `cargo test --offline` (137 passed), run demo.sh against both binaries and
confirm exit 0 / non-zero. Leave the worktree with your change applied. Do not commit. In your final message give a
one-sentence description of the change, what it needs to manifest, and the exit codes you observed.""")


if __name__ == "__main__":
    main()
