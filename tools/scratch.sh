#!/bin/bash
# tools/scratch.sh <patch> <dir>: scratch copy of /repo (src + Cargo files) with the patch applied, for VERIF_REPO=<dir> ./check ..
set -e
rm -rf "$2"; mkdir -p "$2"; cp /repo/Cargo.toml /repo/Cargo.lock "$2"/; cp -r /repo/src "$2"/src
cd "$2" && git init -q && git apply --include='src/*' --include=Cargo.toml "$1"
