#!/usr/bin/env python3
"""tools/mkmeta.py <ID> <prop> <missed:0|1> <change> <needs>: write seeded/<ID>/meta.json, filling `reports` from the
registered check run against the patch on a scratch copy (tools/try_patch.py)."""
import json
import os
import subprocess
import sys
sid, prop, missed, change, needs = sys.argv[1:6]
d = os.path.join(os.path.dirname(os.path.abspath(__file__)), "..", "seeded", sid)
out = subprocess.run([sys.executable, os.path.join(os.path.dirname(__file__), "try_patch.py"), os.path.join(d, "patch.diff"), prop],
                     capture_output=True, text=True).stdout
reports = [l.strip() for l in out.splitlines() if l.startswith("    ")]
fires = "fires" in out
rl = [l for l in out.splitlines() if l.startswith("  rules: ")]
meta = {"id": sid, "property": prop, "change": change, "needs_to_manifest": needs,
        "origin": "independent sub-agent given only the property text, a scratch worktree of /repo and the instruction to use a different mechanism than the first seed",
        "confirmed": "tools/confirm_seed.sh in a fresh scratch worktree: patch applies, cargo build --offline, cargo test --offline = 137 passed, demo.sh exits 0 on the unchanged binary and 1 on the changed one (see confirm.log)",
        "missed_by_the_checks_when_it_arrived": bool(int(missed)),
        "caught_by_check": prop if fires else None, "caught_by_rules": rl[0][9:].split() if rl else [], "reports": reports}
json.dump(meta, open(os.path.join(d, "meta.json"), "w"), indent=1)
print(sid, "caught" if fires else "MISSED", len(reports))
