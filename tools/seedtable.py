#!/usr/bin/env python3
"""tools/seedtable.py <letter>: DESIGN.md table rows (section 9) for the seeds of one wave, from seeded/*/meta.json"""
import glob, json, os, sys
V = os.path.dirname(os.path.dirname(os.path.abspath(__file__)))
for m in sorted(glob.glob(os.path.join(V, "seeded", "*-%s" % sys.argv[1], "meta.json"))):
    d = json.load(open(m))
    print("| %s | %s | %s | %s |" % (d["id"], d["change"], "missed" if d.get("missed_by_the_checks_when_it_arrived") else "caught", ", ".join(d.get("caught_by_rules") or []) or "—"))
