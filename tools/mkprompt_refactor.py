#!/usr/bin/env python3
"""tools/mkprompt_refactor.py <prop> <worktree> <round>: prompt for an independent sub-agent that writes behaviour-preserving
refactorings of the code behind one property (false-alarm test of the checks).  Contains the property text and the worktree -
nothing about the checks of /verif."""
import json
import os
import sys

VERIF = os.path.dirname(os.path.dirname(os.path.abspath(__file__)))


def main():
    prop, wt, rnd = sys.argv[1], sys.argv[2], sys.argv[3]
    p = [json.loads(l) for l in open(os.path.join(VERIF, "properties.jsonl")) if json.loads(l)["id"] == prop][0]
    anchors = "\n".join("  - %s (%s)" % (a["name"], a["where"]) for a in p["anchors"]["mechanism"])
    print(f"""You are helping test a verification effort for the Rust CLI `fselect` (jhspetersson/fselect). You have your own scratch
git worktree of the repository at {wt} (a detached checkout; work ONLY there, never in /repo, never read or write /verif).
The sandbox has no network; build with `cargo build --offline` and test with `cargo test --offline` inside {wt}
(137 tests, all pass on the unchanged tree). The unchanged tree's debug binary is at {wt}/_out/fselect.orig.

The property the code below implements:

  id: {p['id']}
  title: {p['title']}
  statement: {p['statement']}
  where it is implemented:
{anchors}

YOUR TASK: write SIX different BEHAVIOUR-PRESERVING refactorings of the code that implements this property - the kind of
clean-up a maintainer does without intending any change of behaviour. Each one 8 to 60 changed lines, each one a separate
diff against the clean tree (start each from a clean checkout: `git checkout -- .`). Use a different mix of techniques in
each, for example: extract a helper function or method / inline one; rename private functions, parameters and locals;
reorder or regroup parameters of a private function (update all callers); `if let` <-> `match` <-> `let .. else`; nested ifs
<-> guard clauses with early return / continue; loop <-> iterator chain; De Morgan and mirrored comparisons; hoist a
sub-expression into a local or fold a local back; replace a table written as `match` by a lookup in a const slice or the other
way round; split a long function in two; change a `&String`/`&Vec<T>` parameter to `&str`/`&[T]`; add a small cache or
pre-computed flag whose use is provably equivalent; restructure error handling (`?`, `map_err`, `ok_or_else`) without changing
what is reported. Prefer the functions a maintainer would really want to tidy (the long ones), and touch helpers too.
At least two of the six must restructure control flow substantially, and at least two must introduce a new private function.

The behaviour must be EXACTLY preserved for every input: same rows, same order, same stderr, same exit status, same panics
(none). Do not fix bugs, do not change messages, do not change public CLI behaviour.

For each refactoring N = 1..6:
  - apply it on a clean tree, `cargo build --offline` (no new warnings), `cargo test --offline` (137 passed);
  - compare the refactored binary with {wt}/_out/fselect.orig on at least 20 queries relevant to the property over a small
    scratch tree you create under `mktemp -d` (stdout, stderr and exit status byte for byte; include error cases);
  - save `git diff` as {wt}/_out/refactor-N.diff (src/** only; must apply with `git apply` to a clean checkout).

Also write {wt}/_out/notes.md: per refactoring 3-6 lines - which functions, which techniques, why behaviour is unchanged.
Leave the worktree clean at the end (`git checkout -- .`). Do not commit. In your final message list the six refactorings in
one line each.""")


if __name__ == "__main__":
    main()
