#!/bin/bash
# tools/confirm_seed.sh <ID> <agent-worktree> <property>   e.g. tools/confirm_seed.sh S-C01-a /tmp/wt-C01 C01
# Confirms a seeded change independently in a fresh scratch worktree of /repo:
#   applies patch.diff, builds, runs the repository's test suite, runs the demonstration against the original and the
#   changed binary.  Writes /verif/seeded/<ID>/{patch.diff,demo.sh,notes.md,confirm.log} on success and removes the
#   scratch worktree with its build output.
set -u
ID=$1; WT=$2; PROP=$3
OUT=/verif/seeded/$ID
CF=/tmp/cf-$ID
LOG=$(mktemp)
ok=1
{
  echo "== confirm $ID ($PROP) from $WT at $(date -u +%FT%TZ)"
  git -C /repo worktree add -q --detach "$CF" HEAD || exit 2
  cd "$CF" || exit 2
  ORIG=/tmp/cf-$ID-orig-fselect
  if [ -x /repo/target/debug/fselect ] && [ -z "$(git -C /repo status --short -- src Cargo.toml)" ]; then
    cp /repo/target/debug/fselect "$ORIG"      # /repo's own debug build of the same HEAD
    echo "original binary: /repo/target/debug/fselect (HEAD $(git -C /repo rev-parse --short HEAD))"
  else
    cargo build --offline -q 2>&1 | tail -3; cp target/debug/fselect "$ORIG"
  fi
  git apply --include='src/*' --include='Cargo.toml' "$WT/_out/patch.diff" || { echo "PATCH DOES NOT APPLY"; ok=0; }
  git diff --stat
  if [ $ok = 1 ]; then
    cargo build --offline 2>&1 | tail -2
    [ -x target/debug/fselect ] || { echo "BUILD FAILED"; ok=0; }
  fi
  if [ $ok = 1 ]; then
    T=$(cargo test --offline 2>&1 | grep -E "^test result" | head -1); echo "tests: $T"
    echo "$T" | grep -q "137 passed; 0 failed" || { echo "TESTS DO NOT ALL PASS"; ok=0; }
  fi
  if [ $ok = 1 ]; then
    echo "-- demo on the original binary"; timeout 120 bash "$WT/_out/demo.sh" "$ORIG" > /tmp/cf-$ID-demo-orig.txt 2>&1; r0=$?; tail -5 /tmp/cf-$ID-demo-orig.txt; echo "exit $r0"
    echo "-- demo on the changed binary"; timeout 120 bash "$WT/_out/demo.sh" "$CF/target/debug/fselect" > /tmp/cf-$ID-demo-new.txt 2>&1; r1=$?; tail -12 /tmp/cf-$ID-demo-new.txt; echo "exit $r1"
    [ $r0 = 0 ] && [ $r1 != 0 ] || { echo "DEMO DOES NOT SEPARATE (orig $r0, changed $r1)"; ok=0; }
  fi
  echo "== result: $([ $ok = 1 ] && echo CONFIRMED || echo REJECTED)"
} > "$LOG" 2>&1
cd /
if [ $ok = 1 ]; then
  mkdir -p "$OUT"
  cp "$WT/_out/patch.diff" "$WT/_out/demo.sh" "$OUT/"
  [ -f "$WT/_out/notes.md" ] && cp "$WT/_out/notes.md" "$OUT/"
  cp "$LOG" "$OUT/confirm.log"
fi
cat "$LOG"
git -C /repo worktree remove --force "$CF" 2>/dev/null
rm -rf "$CF" /tmp/cf-$ID-orig-fselect /tmp/cf-$ID-demo-*.txt "$LOG"
[ $ok = 1 ]
