#!/usr/bin/env python3
"""Regenerates MANIFEST.json from the table below (kept in one place so it stays valid)."""
import importlib
import json
import os
import sys

VERIF = os.path.dirname(os.path.dirname(os.path.abspath(__file__)))
sys.path.insert(0, os.path.join(VERIF, "rules"))

NOT_APPLICABLE = {
}

TECH = {
    "C01": "guard-chain (ancestor condition) whitelists on the report/descent sites of visit_dir, evaluation of the extracted depth-window predicates on an integer grid, call-argument agreement of the recursive/BFS/DFS calls, exit-class whitelist of the entry loop, MIR who-may-call rule for link-following stat calls, default-option table extraction",
    "C02": "HIR table extraction + order-type evaluation of the extracted comparison predicates over all weak orderings; who-may-call rule on name resolution of quoted literals; statement-order rule (literal before text-keyed memo); clause/phase-flag order in Parser::parse",
    "C03": "HIR table extraction, complement check against the extracted comparison table, MIR field-write sets, presence-only guard check on the NOT descent, mini-interpretation of And/Or arms",
    "C04": "evaluation of the extracted mode predicates on all 2^16 mode words (quick: type x permission grid) against the POSIX oracle, table extraction (extension classes, mode string), MIR dominance of the memo reset, field-reset completeness of the per-entry memo",
    "C05": "order-type evaluation of the extracted comparator over operand orderings and directions, key-typing table extraction, guard-chain check of the key/direction pushes, dominance/pairing rules of the ordered buffer",
    "C06": "guard-chain analysis of every LIMIT exit (must contain !is_buffered()), pairing/counter rules of TopN (MIR field writes), definition check of the buffering predicates",
    "C07": "type-directed rule (every division on the AVG path has float operands), aggregate -> primitive/divisor/sqrt table extraction, single-writer MIR rule for the aggregation buffer, must-precede rule (aggregate argument materialised before the key is read)",
    "C08": "path-count rule on the partition closure (each row inserted exactly once), key-construction agreement between writer and reader, clause/phase-flag order in Parser::parse, shared aggregate rules",
    "C09": "format-template decoding (format_args! byte strings) per formatter, escaper-on-every-path rule, who-may-write rule for separators, totality rule for the in-memory sink (no failing path in Write::write), statement-order rule (literal before memo), colour gate extraction",
    "C10": "panic-site enumeration on MIR (Assert terminators + frozen panicking APIs) with re-derived local discharge rules and a reviewed table; variant-sensitive cursor analysis of parser and lexer (termination, no underflow, bounded recursion); exit-status table extraction",
    "C11": "alias table extraction from match arms against the documented alias oracle, lower-casing dataflow on every keyword comparison, finite interpretation of the lexer's context-flag assignments and character classes on all flag valuations",
    "C12": "translator table extraction and regex-metacharacter coverage check, anchoring templates, result-shape agreement of positive/negative operator arms, cache-key analysis",
    "C13": "order-type evaluation of extracted date predicates over all weak orderings of (t, a, b); interval-construction table extraction; unit-chain agreement; finite interpretation of the date look-ahead ranges",
    "C14": "HIR ladder/table extraction compared with documented unit tables, ladder-order rule, fraction-scaling dataflow, finite interpretation of the unit-rewriting statements on every humansize unit x short flag",
    "C15": "grammar-layer extraction (operator sets per precedence level, left association), calc table, field-dependence of the cache key (MIR field reads), finite interpretation of the bracket decision over (side, inner op, outer op), write-through rule",
    "C16": "arm-by-arm primitive extraction of get_value against a documented oracle (character- vs byte-based primitives), constructor/coercion table extraction for Variant, panic-site analysis restricted to function.rs",
    "C17": "failure-branch rules on visit_dir (count, report, continue), totality of content readers (panic sites + fallbacks), stdout-write discipline (every write handles BrokenPipe), memo-reset completeness, exit-status table",
    "C18": "guard-chain whitelist on the link-following descent, canonical-key rule for the visited set (dataflow from canonicalize to insert), must-precede rule (visited check before listing), saturating-depth rule",
    "C19": "archive member loop rules (range, identity, guards, exits), FileInfo field table, availability table vs column arms, exit-class whitelist of the entry loop, mode predicates on stored unix modes",
    "C20": "option-resolution table extraction (root option > config > default), loader/filter pairing per ignore kind, regex-hygiene rules on the translators (escaping of the directory prefix, anchors), canonical-path dataflow to the git query",
}

props = [json.loads(l)["id"] for l in open(os.path.join(VERIF, "properties.jsonl"))]
checks = []
na = []
for p in props:
    try:
        mod = importlib.import_module(p.lower())
    except ImportError:
        mod = None
    if mod is None or p in NOT_APPLICABLE:
        na.append({"property_id": p, "reason": NOT_APPLICABLE.get(p, "check under construction (static rules for this "
                   "property are not armed yet); no claim is made")})
        continue
    checks.append({
        "property_id": p,
        "quick_cmd": "./check %s --tier quick" % p,
        "thorough_cmd": "./check %s --tier thorough" % p,
        "evidence_file": "/verif/evidence/%s.json" % p,
        "replay_cmd_template": "./check %s --replay {path}" % p,
        "engine": "fsfacts+rules",
        "level_claimed": {
            "category": "other",
            "text": "static structural necessary conditions decided on the type-checked HIR/MIR of /repo's current tree "
                    "(rules %s); not a proof of the behavioural statement: %s" %
                    (", ".join(r[0] for r in mod.RULES), mod.EXPLANATION[:600]),
            "design_ref": "DESIGN.md section 4, %s" % p,
        },
        "level_note": "trusted base: rustc nightly front end (HIR, typeck, MIR), the fsfacts exporter, the frozen oracle "
                      "tables (rules/oracles.py), the rule scripts. Not decided: " + "; ".join(mod.NOT_DECIDED),
        "technique": "static analysis: " + TECH.get(p, "custom HIR/MIR rules over rustc_private facts"),
    })

m = {
    "version": 1,
    "setup_cmd": "cd /verif && python3 rules/facts.py default nodefault git users",
    "hooks": {
        "guard": "fselect_verif",
        "enable": "none needed: the analysis reads /repo's source through the compiler (cargo +nightly check with the "
                  "fsfacts driver as RUSTC_WORKSPACE_WRAPPER); no instrumentation is compiled into fselect",
        "baseline_off_cmd": "cd /repo && cargo test --workspace --no-fail-fast --offline",
        "source_commits": [],
        "add_only": True,
    },
    "engines": [
        {"name": "fsfacts+rules", "path": "/verif/engine/fsfacts, /verif/rules",
         "serves_properties": [c["property_id"] for c in checks],
         "kind_free_text": "rustc_private fact exporter (HIR expression trees with resolved paths, MIR CFGs with resolved "
                           "callees and constants) + Python rule scripts: table extraction against frozen oracles, order-type "
                           "evaluation of extracted comparison predicates, CFG dominance/pairing rules, field read/write sets, "
                           "panic-site enumeration with local discharge"},
    ],
    "checks": checks,
    "not_applicable": na,
    "notes": "Every check inspects /repo's current working tree on every run (content-hash keyed fact cache under "
             "/verif/.cache, which is rebuilt by setup_cmd or on demand). Known findings: /verif/known_findings.json. "
             "Selftest of the checker (mutants/variants): selftest/run.py. See DESIGN.md.",
}
json.dump(m, open(os.path.join(VERIF, "MANIFEST.json"), "w"), indent=1)
print("checks:", [c["property_id"] for c in checks])
print("not_applicable:", [x["property_id"] for x in na])
