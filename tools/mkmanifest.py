#!/usr/bin/env python3
"""Regenerates MANIFEST.json from the table below (kept in one place so it stays valid)."""
import importlib
import json
import os
import sys

VERIF = os.path.dirname(os.path.dirname(os.path.abspath(__file__)))
sys.path.insert(0, os.path.join(VERIF, "rules"))

NOT_APPLICABLE = {
}

TECH = {
    "C02": "HIR table extraction + order-type evaluation of extracted comparison predicates; who-may-call rule on name resolution",
    "C03": "HIR table extraction, complement check against extracted comparison table, MIR field-write sets, mini-interpretation of And/Or arms",
    "C13": "order-type evaluation of extracted date predicates over all weak orderings; interval-construction table extraction",
    "C14": "HIR ladder/table extraction compared with documented unit tables",
}

props = [json.loads(l)["id"] for l in open(os.path.join(VERIF, "properties.jsonl"))]
checks = []
na = []
for p in props:
    try:
        mod = importlib.import_module(p.lower())
    except ImportError:
        mod = None
    if mod is None or p in NOT_APPLICABLE:
        na.append({"property_id": p, "reason": NOT_APPLICABLE.get(p, "check under construction (static rules for this "
                   "property are not armed yet); no claim is made")})
        continue
    checks.append({
        "property_id": p,
        "quick_cmd": "./check %s --tier quick" % p,
        "thorough_cmd": "./check %s --tier thorough" % p,
        "evidence_file": "/verif/evidence/%s.json" % p,
        "replay_cmd_template": "./check %s --replay {path}" % p,
        "engine": "fsfacts+rules",
        "level_claimed": {
            "category": "other",
            "text": "static structural necessary conditions decided on the type-checked HIR/MIR of /repo's current tree "
                    "(rules %s); not a proof of the behavioural statement: %s" %
                    (", ".join(r[0] for r in mod.RULES), mod.EXPLANATION[:600]),
            "design_ref": "DESIGN.md section 4, %s" % p,
        },
        "level_note": "trusted base: rustc nightly front end (HIR, typeck, MIR), the fsfacts exporter, the frozen oracle "
                      "tables (rules/oracles.py), the rule scripts. Not decided: " + "; ".join(mod.NOT_DECIDED),
        "technique": "static analysis: " + TECH.get(p, "custom HIR/MIR rules over rustc_private facts"),
    })

m = {
    "version": 1,
    "setup_cmd": "cd /verif && python3 rules/facts.py default nodefault git users",
    "hooks": {
        "guard": "fselect_verif",
        "enable": "none needed: the analysis reads /repo's source through the compiler (cargo +nightly check with the "
                  "fsfacts driver as RUSTC_WORKSPACE_WRAPPER); no instrumentation is compiled into fselect",
        "baseline_off_cmd": "cd /repo && cargo test --workspace --no-fail-fast --offline",
        "source_commits": [],
        "add_only": True,
    },
    "engines": [
        {"name": "fsfacts+rules", "path": "/verif/engine/fsfacts, /verif/rules",
         "serves_properties": [c["property_id"] for c in checks],
         "kind_free_text": "rustc_private fact exporter (HIR expression trees with resolved paths, MIR CFGs with resolved "
                           "callees and constants) + Python rule scripts: table extraction against frozen oracles, order-type "
                           "evaluation of extracted comparison predicates, CFG dominance/pairing rules, field read/write sets, "
                           "panic-site enumeration with local discharge"},
    ],
    "checks": checks,
    "not_applicable": na,
    "notes": "Every check inspects /repo's current working tree on every run (content-hash keyed fact cache under "
             "/verif/.cache, which is rebuilt by setup_cmd or on demand). Known findings: /verif/known_findings.json. "
             "Selftest of the checker (mutants/variants): selftest/run.py. See DESIGN.md.",
}
json.dump(m, open(os.path.join(VERIF, "MANIFEST.json"), "w"), indent=1)
print("checks:", [c["property_id"] for c in checks])
print("not_applicable:", [x["property_id"] for x in na])
